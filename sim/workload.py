"""Seeded workload generator for the `pipe` engine: a CSV data set with ground truth plus CLI arguments.

A workload is explicit (JSON): header, label, list of data lines ({'ok': True, 'cells': [...]} or
{'ok': False, 'raw': '...'}), line terminator, final newline flag.  The same object is what a replay
file contains and what the shrinker edits.
"""
from __future__ import annotations

import csv
import io

ALPHA = 'abcdefghijklmnopqrstuvwxyzABCDEFGHIJKLMNOPQRSTUVWXYZ0123456789'
LATIN = 'éèüÿñçÆøß¡¿'
PUNCT = ' _-.;:!?#$%&()*+/<=>@[]^`{|}~\'",'
ODD = '\x0b\x0c\x1c\x1d\x1e\x85\xa0'        # not line breaks for file iteration or csv, but for str.splitlines()
NAME_CHARS = 'abcdefghijklmnopqrstuvwxyz0123456789_'


def render_row(cells):
    buf = io.StringIO()
    csv.writer(buf, lineterminator='').writerow(cells)
    return buf.getvalue()


def dataset_desc(wl):
    """dataset_desc.json of an ob-csv source (column names and types come from here)"""
    import json
    fl = set(wl.get('float_cols') or [])
    return json.dumps({'data_features': [{'name': n, 'type': 'Float' if n in fl else 'String'} for n in wl['header']]})


def render(wl):
    eol = wl.get('eol', '\n')
    parts = [','.join(wl['header'])]
    for ln in wl['lines']:
        parts.append(render_row(ln['cells']) if ln['ok'] else ln['raw'])
    text = eol.join(parts)
    if wl.get('final_newline', True):
        text += eol
    return text.encode('latin1')


def _word(rng, lo=1, hi=6, fancy=0.2):
    k = rng.randrange(lo, hi + 1)
    chars = ALPHA
    if rng.random() < fancy:
        chars = ALPHA + LATIN + PUNCT
        if rng.random() < 0.15:
            chars = chars + ODD * 3
    return ''.join(rng.choice(chars) for _ in range(k))


def _name(rng, used):
    while True:
        n = rng.choice('abcdefghijklmnopqrstuvwxyz') + ''.join(rng.choice(NAME_CHARS) for _ in range(rng.randrange(0, 6)))
        if rng.random() < 0.15:
            n = n + ' ' + rng.choice(NAME_CHARS)
        if n not in used and n != 'label':
            used.add(n)
            return n


def gen_column(rng, n, label_vals, kind=None):
    kind = kind or rng.choice(['lowcard', 'lowcard', 'lowcard', 'midcard', 'id', 'constant', 'sparse', 'numeric', 'noisy-label', 'balanced-binary', 'multi', 'numeric-spellings'])
    if kind == 'multi':
        toks = [_word(rng, 1, 3, 0) for _ in range(rng.randrange(2, 6))]
        sep = rng.choice(['-', ','])
        return [sep.join(rng.sample(toks, rng.randrange(1, min(3, len(toks)) + 1))) if rng.random() > 0.1 else '' for _ in range(n)], kind
    if kind == 'constant':
        v = _word(rng)
        return [v] * n, kind
    if kind == 'id':
        return [f'id{i:05d}' if rng.random() < 0.9 else _word(rng, 3, 8) + str(i) for i in range(n)], kind
    if kind == 'sparse':
        miss = rng.choice(['', '', '{}'])
        vals = [_word(rng) for _ in range(rng.randrange(1, 5))]
        p = rng.choice([0.3, 0.7, 0.95])
        return [miss if rng.random() < p else rng.choice(vals) for _ in range(n)], kind
    if kind == 'numeric-spellings':
        vals = ['1', '1.0', '1.00', '01', '1e0', '2', '2.0', '0.5', '.5', '10', '1E1']
        return [rng.choice(vals) for _ in range(n)], 'numeric'
    if kind == 'numeric':
        vals = [str(rng.randrange(0, 30)) for _ in range(rng.randrange(2, 8))] + ['1', '11', '111', '2']
        return [rng.choice(vals) for _ in range(n)], kind
    if kind == 'noisy-label':
        flip = rng.choice([0.05, 0.15, 0.4])
        pool = sorted(set(label_vals))
        return ['v' + (l if rng.random() > flip else rng.choice(pool)) for l in label_vals], kind
    if kind == 'balanced-binary':
        vals = [_word(rng), _word(rng)]
        col = [vals[i % 2] for i in range(n)]
        rng.shuffle(col)
        return col, kind
    k = rng.randrange(2, 5) if kind == 'lowcard' else rng.randrange(5, max(6, n // 2 + 2))
    vals = sorted({_word(rng, 1, 6) for _ in range(k)}) or ['x']
    if rng.random() < 0.2:
        vals.append('')
    w = [rng.random() ** 2 + 0.05 for _ in vals]
    return rng.choices(vals, weights=w, k=n), kind


def gen_workload(rng, n_lines, ncols=None, malformed=0.0, opts=None):
    """n_lines data lines (well-formed + malformed)."""
    opts = opts or {}
    ncols = ncols or rng.randrange(2, 7)
    used = set()
    label_name = 'label' if rng.random() < 0.6 else _name(rng, used)
    names = [_name(rng, used) for _ in range(ncols - 1)]
    if opts.get('rel_names') and len(names) >= 2 and rng.random() < opts['rel_names']:
        k = rng.randrange(1, 1 + max(1, len(names) // 3))
        for i in rng.sample(range(len(names)), k):
            # the real marker (with blanks) and near misses of it: the marker without blanks, the interaction marker, fragments
            marker = rng.choice([' AND_REL ', ' AND_REL ', 'AND_REL', '_AND_REL_', ' AND_REL', 'AND_REL ', ' AND ', 'AND', ' and_rel '])
            nm = names[i] + marker + rng.choice(names)
            if nm not in used:
                used.add(nm)
                names[i] = nm
    lpos = rng.randrange(0, ncols)
    names.insert(lpos, label_name)
    nclass = rng.choice([2, 2, 2, 3, 5])
    lab_vals = [str(i) for i in range(nclass)] if rng.random() < 0.7 else [_word(rng, 1, 3, 0) + str(i) for i in range(nclass)]
    label = [rng.choice(lab_vals) for _ in range(n_lines)]
    cols, kinds = [], []
    for j in range(ncols):
        if j == lpos:
            cols.append(label)
            kinds.append('label')
        elif cols and rng.random() < 0.08 and j != lpos and kinds[-1] != 'label':
            cols.append(list(cols[-1]))
            kinds.append('duplicate')
        else:
            c, k = gen_column(rng, n_lines, label, opts.get('kind') if not isinstance(opts.get('kind'), list) else rng.choice(opts['kind']))
            cols.append(c)
            kinds.append(k)
    lines = []
    for i in range(n_lines):
        if malformed and rng.random() < malformed:
            m = rng.random()
            if m < 0.3:
                cells = [cols[j][i] for j in range(ncols)][:-1]          # one field short
            elif m < 0.6:
                cells = [cols[j][i] for j in range(ncols)] + [_word(rng)]  # one field too many
            elif m < 0.8:
                cells = []                                                # blank line
            else:
                cells = [_word(rng)] * (ncols + rng.randrange(2, 5))
            if len(cells) == ncols:
                cells = cells + ['x']
            lines.append({'ok': False, 'raw': render_row(cells)})
        else:
            lines.append({'ok': True, 'cells': [cols[j][i] for j in range(ncols)]})
    return {
        'header': names, 'label': label_name, 'lines': lines, 'kinds': kinds,
        'eol': '\r\n' if rng.random() < 0.15 else '\n',
        'final_newline': rng.random() > 0.2,
    }


def consumed_rows(wl, subsampling):
    return [ln['cells'] for pos, ln in enumerate(wl['lines'], start=1) if pos % subsampling == 0 and ln['ok']]
