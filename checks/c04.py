"""C04 - sub-sampled estimation is memory-safe, deterministic, sample-only (engine `alloc`).

A trial = one (Y, X, r, correction) case executed in several simulated processes that differ in
allocator behaviour (natural heap with seeded churn / fixed poison words / poison stream) and
hash seed, several repetitions each.  Oracle = the statement: every process terminates normally,
the score is finite, bit-identical everywhere, unchanged by alterations of Y outside the rows the
reference sampler selects, and (quota 0) equal to the full-data score (optionally scaled by r).
"""
from __future__ import annotations

import json
import math
import random
import struct

from checks import common
from sim.alloc.alloc import palette
from sim.refmodel import subsample

ENGINE = 'alloc'


# ----------------------------------------------------------------------------- generation
def gen_case(rng, tier):
    big = tier == 'thorough' and rng.random() < 0.03
    n = rng.choice([rng.randrange(1, 12), rng.randrange(2, 60), rng.randrange(10, 400)])
    if big:
        n = rng.randrange(1000, 100000)
    shape = rng.choice(['balanced', 'skewed', 'tiny-stratum', 'singletons', 'one', 'random', 'sparse'])
    if shape == 'one':
        k = 1
    elif shape == 'singletons':
        k = n
    else:
        k = rng.choice([2, 2, 3, rng.randrange(1, max(2, min(n, 12)) + 1), rng.randrange(1, n + 1)])
    k = max(1, min(k, n))
    if big:
        # the estimator is O(#strata * n + #classes * n): keep big inputs to few strata / classes
        if shape == 'singletons':
            shape = 'random'
        k = min(k, rng.choice([1, 2, 3, 12, 30]))
    if shape == 'balanced':
        X = [i * k // n for i in range(n)]
        if rng.random() < 0.5:
            rng.shuffle(X)
    elif shape == 'tiny-stratum':
        small = rng.randrange(1, max(2, n // 8 + 1))
        X = [0] * (n - min(small, n - 1)) + [1 + (i % max(1, k - 1)) for i in range(min(small, n - 1))]
        if rng.random() < 0.5:
            rng.shuffle(X)
    elif shape == 'skewed':
        X = [min(k - 1, int(k * rng.random() ** 3)) for _ in range(n)]
    else:
        X = [rng.randrange(k) for _ in range(n)]
    if shape == 'sparse':
        m = {v: rng.randrange(0, 2 ** 20) for v in set(X)}
        X = [m[v] for v in X]
    ky = rng.choice([1, 2, 2, 3, rng.randrange(1, n + 1)])
    if big:
        ky = min(ky, 30)
    ymode = rng.random()
    if ymode < 0.08:
        Y = list(X)
    elif ymode < 0.2:
        Y = [(x + (1 if rng.random() < 0.15 else 0)) % (max(X) + 2) for x in X]
    else:
        Y = [rng.randrange(ky) for _ in range(n)]
    if rng.random() < 0.1:
        m = {v: rng.randrange(0, 2 ** 20) for v in set(Y)}
        Y = [m[v] for v in Y]
    nvals = len(set(X))
    # ratio: uniform, near a quota change, tiny (quota 0), near 1
    rm = rng.random()
    if rm < 0.35:
        r = rng.random()
    elif rm < 0.7:
        q = rng.randrange(1, max(2, n // nvals + 2))
        base = (q * nvals + rng.choice([0, 0, 1, nvals - 1, rng.randrange(0, nvals)])) / n
        r = base + rng.choice([0.0, 1e-7, -1e-7, 1e-3, -1e-3, 0.5 / n])
    elif rm < 0.85:
        r = rng.random() * nvals / n
    else:
        r = 1.0 - rng.random() * 0.1
    r = min(max(r, 1e-6), 0.999999)
    r = subsample.f32(r)
    if r >= 1.0:
        r = subsample.f32(0.99999)
    case = {'Y': Y, 'X': X, 'r': r, 'corr': rng.random() < 0.6, 'want_full': False, 'alter': []}
    idx = subsample.sample_indices(X, r)
    if idx is None:
        case['want_full'] = True
    else:
        outside = sorted(set(range(n)) - set(idx))
        if outside:
            rng.shuffle(outside)
            take = outside[:rng.choice([1, 2, len(outside)])]
            ymax = max(Y)
            case['alter'] = [[i, rng.choice([0, ymax, ymax + 1, (Y[i] + 1) % (ymax + 2), rng.randrange(0, ymax + 2)])] for i in sorted(take)]
    return case


def specs_for(rng, n):
    pal = palette(n)
    w1, w2 = rng.sample(pal, 2)
    return [
        {'name': 'natural+churn', 'poison': None},
        {'name': 'word:' + w1[0], 'poison': {'mode': 0, 'word': w1[1]}},
        {'name': 'word:' + w2[0], 'poison': {'mode': 0, 'word': w2[1]}},
        {'name': 'stream', 'poison': {'mode': 1, 'seed': rng.randrange(1, 2 ** 63)}},
    ]


def shape_class(case):
    X, r = case['X'], case['r']
    n = len(X)
    nvals = len(set(X))
    fss, q = subsample.quota(X, r)
    counts = {}
    for v in X:
        counts[v] = counts.get(v, 0) + 1
    small = sum(1 for c in counts.values() if c < q)
    return (
        'n<=12' if n <= 12 else 'n<=60' if n <= 60 else 'n<=400' if n <= 400 else 'big',
        'k=1' if nvals == 1 else 'k=2' if nvals == 2 else 'k=n' if nvals == n else 'k<=12' if nvals <= 12 else 'k>12',
        'q=0' if q == 0 else 'q=1' if q == 1 else 'q>1',
        'rem' if q and fss % nvals else 'norem',
        'small-strata' if small else 'no-small',
        'corr' if case['corr'] else 'plain',
    )


# ----------------------------------------------------------------------------- evaluation
def make_jobs(cases, specs, churn_seed, reps=3, timeout=None):
    rows = sum(len(c['X']) for c in cases)
    return [{'fn': 'alloc.cases', 'timeout': timeout or (20 + rows / 2000.0),
             'args': {'cases': cases, 'poison': s['poison'], 'churn_seed': churn_seed, 'reps': reps}} for s in specs]


def judge_case(case, outs):
    """outs: per child the per-case dict (or None if the child did not return).  -> (cls, detail) or None"""
    allbits = set()
    for o in outs:
        if o is None:
            continue
        if not o['finite']:
            return 'nonfinite', {'score': o['score']}
        allbits.update(o['bits'])
    if len(allbits) > 1:
        return 'nondeterministic', {'scores': sorted(struct.unpack('<f', struct.pack('<I', b))[0] for b in allbits)}
    for o in outs:
        if o is None:
            continue
        if 'mi_bits' in o and o['mi_bits'] not in allbits:
            return 'plumbing-differs', {'score': o['score'], 'through_numba_mi': struct.unpack('<f', struct.pack('<I', o['mi_bits']))[0], 'ratio': case['r']}
        if 'alt_bits' in o and o['alt_bits'] not in allbits:
            return 'not-sample-only', {'score': o['score'], 'altered_score': struct.unpack('<f', struct.pack('<I', o['alt_bits']))[0]}
        if 'full_bits' in o:
            s = struct.unpack('<f', struct.pack('<I', o['bits'][0]))[0]
            f = struct.unpack('<f', struct.pack('<I', o['full_bits']))[0]
            ok = any(abs(s - c * f) <= 1e-5 * (1 + abs(f)) for c in (1.0, case['r']))
            if not ok:
                return 'quota0-not-all-rows', {'score': s, 'full_score': f}
    return None


def evaluate(pool, groups):
    """groups: list of {'cases': [...], 'specs': [...], 'churn_seed': int}.  Returns per group a list
    of per-case verdicts (None or (cls, detail)) and raw status list."""
    jobs, owner = [], []
    for gi, g in enumerate(groups):
        js = make_jobs(g['cases'], g['specs'], g['churn_seed'], timeout=g.get('timeout'))
        jobs += js
        owner += [gi] * len(js)
    res = pool.run(jobs)
    out = []
    pos = 0
    for gi, g in enumerate(groups):
        rs = res[pos:pos + len(g['specs'])]
        pos += len(g['specs'])
        verdicts = [None] * len(g['cases'])
        group_fail = None
        per_child = []
        for s, r in zip(g['specs'], rs):
            if r['status'] == 'returned':
                per_child.append(r['value']['cases'])
            else:
                per_child.append(None)
                if r['status'] == 'died':
                    group_fail = ('died', {'signal': r['signal'], 'spec': s['name']})
                elif r['status'] == 'exception':
                    group_fail = ('exception', {'trace': r['trace'][-800:], 'spec': s['name']})
                elif r['status'] == 'timeout':
                    group_fail = ('timeout', {'spec': s['name']})
                else:
                    group_fail = ('abnormal-exit', {'status': r, 'spec': s['name']})
        for ci, case in enumerate(g['cases']):
            outs = [pc[ci] if pc is not None else None for pc in per_child]
            verdicts[ci] = judge_case(case, outs)
        out.append({'verdicts': verdicts, 'group_fail': group_fail, 'alloc': [r['value']['alloc'] if r['status'] == 'returned' else {} for r in rs]})
    return out


UNSAFE = {'died', 'exception', 'nonfinite', 'nondeterministic', 'abnormal-exit'}


def family(cls):
    """Reading uninitialised memory shows up as a crash, an exception, a non-finite or a varying score depending on
    what the natural (uncontrolled) heap of that process holds; minimisation and replay treat these as one class."""
    return 'memory-unsafe' if cls in UNSAFE else cls


def first_failure(ev):
    """(cls, detail, case_index or None)"""
    if ev['group_fail'] and ev['group_fail'][0] != 'timeout':
        return ev['group_fail'][0], ev['group_fail'][1], None
    for ci, v in enumerate(ev['verdicts']):
        if v is not None:
            return v[0], v[1], ci
    return None


# ----------------------------------------------------------------------------- shrinking
def dense(v):
    m = {x: i for i, x in enumerate(sorted(set(v)))}
    return [m[x] for x in v]


def shrink(pool, group, cls, budget=40, wall=60.0):
    """Greedy structural minimisation preserving the violation class.  group has >= 1 cases; the
    failing one is the last."""
    def fails(g):
        ev = evaluate(pool, [g])[0]
        ff = first_failure(ev)
        return ff is not None and family(ff[0]) == family(cls)

    def fails_many(gs):
        evs = evaluate(pool, gs)
        return [family((first_failure(ev) or (None,))[0]) == family(cls) for ev in evs]

    # while minimising, a candidate that hangs is simply "not simpler": short wall limit per process
    group = dict(group, timeout=8 + sum(len(c['X']) for c in group['cases']) / 20000.0)
    cur = group
    # 1. only the last case
    if len(cur['cases']) > 1:
        g = dict(cur, cases=[cur['cases'][-1]])
        if fails(g):
            cur = g
    rounds = 0
    import time as _t
    t0 = _t.time()
    while rounds < budget and _t.time() - t0 < wall:
        rounds += 1
        case = cur['cases'][-1]
        n = len(case['X'])
        cands = []

        def with_case(c):
            return dict(cur, cases=cur['cases'][:-1] + [c])

        def restrict(keep):
            keep = sorted(keep)
            remap = {old: new for new, old in enumerate(keep)}
            c = dict(case, X=[case['X'][i] for i in keep], Y=[case['Y'][i] for i in keep],
                     alter=[[remap[i], v] for i, v in case['alter'] if i in remap])
            return c
        # drop row blocks
        if n > 1:
            for parts in ((2, 4, 8) if n <= 5000 else (2,)):
                size = max(1, n // parts)
                for s in range(0, n, size):
                    keep = [i for i in range(n) if not (s <= i < s + size)]
                    if keep:
                        cands.append(restrict(keep))
            if n <= 24:
                for i in range(n):
                    cands.append(restrict([j for j in range(n) if j != i]))
        # simplify values
        cands.append(dict(case, X=dense(case['X'])))
        cands.append(dict(case, Y=dense(case['Y'])))
        cands.append(dict(case, Y=[0] * n, alter=[a for a in case['alter']]))
        cands.append(dict(case, corr=False))
        for digits in (1, 2, 3):
            rr = subsample.f32(round(case['r'], digits))
            if 0 < rr < 1 and rr != case['r']:
                cands.append(dict(case, r=rr))
        if len(case['alter']) > 1:
            k = len(case['alter'])
            cands.append(dict(case, alter=case['alter'][:k // 2]))
            cands.append(dict(case, alter=case['alter'][k // 2:]))
            for i in range(min(k, 6)):
                cands.append(dict(case, alter=[case['alter'][i]]))
        # simpler process set: fewer specs
        groups = [with_case(c) for c in cands if c != case]
        # alterations must stay outside the reference sample to keep the oracle meaningful
        ok_groups = []
        for g in groups:
            c = g['cases'][-1]
            idx = subsample.sample_indices(c['X'], c['r']) if c['X'] else None
            c = dict(c)
            if idx is None:
                c['alter'] = []
                c['want_full'] = True
            else:
                inside = set(idx)
                c['alter'] = [a for a in c['alter'] if a[0] not in inside]
                c['want_full'] = False
            g = dict(g, cases=g['cases'][:-1] + [c])
            ok_groups.append(g)
        if not ok_groups:
            break
        results = fails_many(ok_groups)
        better = [g for g, f in zip(ok_groups, results) if f]
        if not better:
            break
        better.sort(key=lambda g: (len(g['cases'][-1]['X']), sum(g['cases'][-1]['X']) + sum(g['cases'][-1]['Y'])))
        cur = better[0]
    return cur


# ----------------------------------------------------------------------------- main
def run(args):
    rep = common.Report('C04', args, ENGINE)
    rep.rule = ('case = (Y, X, r, correction) from a seeded generator biased to strata smaller than the quota, floor(r*n) not a '
                'multiple of the stratum count, quota 0, one stratum, ratios next to a quota change, sparse codes; each case runs in 4 '
                'simulated processes (natural heap + seeded churn, two fixed poison words, one poison stream; 2+ hash seeds) x 3 repetitions. '
                'distinct_nontrivial = distinct (n class, strata class, quota class, remainder, small-strata, correction) tuples among cases '
                'where an unwritten buffer tail can exist (some stratum < quota or quota does not divide floor(r*n)).')
    rep.assumptions = ['numba NRT allocations are routed through PyMem RAW (memsys_use_cpython_allocator) and filled by sim/alloc/poison.c',
                       'a crash of the simulated process is observed as death-by-signal of the forked child']
    if args.replay:
        return replay(args, rep)
    budget = args.budget or (45 if args.tier == 'quick' else 900)
    pool = common.ZygotePool(hashseeds=[0, 1] if args.tier == 'quick' else [0, 1, 2, 3])
    rep.hashseeds.update(pool.hashseeds)
    rng = random.Random(f'C04/{args.seed}')
    batch_cases = 20
    groups_per_round = 16
    found = False
    rounds = 0
    import time as _time
    t_start = _time.time()
    while (rounds == 0 or _time.time() - t_start < budget) and not found:
        rounds += 1
        groups = []
        for _ in range(groups_per_round):
            cases = [gen_case(rng, args.tier) for _ in range(batch_cases)]
            nmed = sorted(len(c['X']) for c in cases)[len(cases) // 2]
            groups.append({'cases': cases, 'specs': specs_for(rng, nmed), 'churn_seed': rng.randrange(2 ** 31)})
        evs = evaluate(pool, groups)
        timeouts = []
        for g, ev in zip(groups, evs):
            for a, s in zip(ev['alloc'], g['specs']):
                if a:
                    rep.add_counts(rep.fault_counts, {'poison_fills:' + ('stream' if s['name'] == 'stream' else 'word'): a.get('mallocs', 0) + a.get('frees', 0)})
            rep.add_counts(rep.fault_counts, {'churn_histories': len(g['cases']) * 3 * len(g['specs'])})
            for c in g['cases']:
                rep.evaluations += 1
                sc = shape_class(c)
                if subsample.has_unwritten_tail(c['X'], c['r']):
                    rep.distinct.add(sc)
                    rep.add_counts(rep.probes, {'stratum<quota or remainder': 1})
                if sc[2] == 'q=0':
                    rep.add_counts(rep.probes, {'quota0': 1})
                if c['alter']:
                    rep.add_counts(rep.probes, {'altered_outside_sample': 1})
                if c['Y'] == c['X']:
                    rep.add_counts(rep.probes, {'self_pair': 1})
                rep.sample({'n': len(c['X']), 'X': c['X'][:40], 'Y': c['Y'][:40], 'r': c['r'], 'corr': c['corr'],
                            'alter': c['alter'][:5], 'specs': [s['name'] for s in g['specs']]})
            ff = first_failure(ev)
            if ff is None and ev['group_fail']:
                timeouts.append(ev['group_fail'])
            if ff is None or found:
                continue
            cls, detail, ci = ff
            # isolate the failing case
            if ci is None:
                # child died / raised: find the first case that fails on its own, else keep the batch
                singles = [dict(g, cases=[c]) for c in g['cases']]
                sev = evaluate(pool, singles)
                pick = None
                for sg, se in zip(singles, sev):
                    sf = first_failure(se)
                    if sf is not None and family(sf[0]) == family(cls):
                        pick = sg
                        detail = sf[1]
                        break
                group = pick or g
            else:
                group = dict(g, cases=g['cases'][:ci + 1])
            small = shrink(pool, group, cls)
            small = {k: v for k, v in small.items() if k != 'timeout'}
            fin = first_failure(evaluate(pool, [small])[0])
            if fin is None or family(fin[0]) != family(cls):
                small, fin = group, (cls, detail, None)
            cls = fin[0]
            c = small['cases'][-1]
            key = f"n={len(c['X'])} r={c['r']} corr={c['corr']}"
            new = rep.violation(cls, key, {'observed': fin[1], 'case': {k: c[k] for k in ('Y', 'X', 'r', 'corr', 'alter')},
                                           'reference_sample': subsample.sample_indices(c['X'], c['r']),
                                           'quota': subsample.quota(c['X'], c['r'])},
                                {'group': small, 'original_group_size': len(g['cases']), 'seed': args.seed})
            if new and not args.keep_going:
                found = True
        if timeouts and not found:
            # a child that neither returned nor died within its wall limit: not silently ok, and not
            # attributable with certainty -> harness outcome (exit 2)
            raise common.HarnessError(f'child wall-limit exceeded in alloc engine: {timeouts[0]}')
    if not found:
        found = pipeline_mode(pool, rep, rng, args, wall=budget * 0.25)
    rep.extra['real_components'] = ['outrank.algorithms.feature_ranking.ranking_mi_numba (all kernels, compiled by numba from /repo)',
                                    'pipeline mode: the full ranking task with --mi_stratified_sampling_ratio < 1 (engine pipe)']
    rep.extra['stub_components'] = ['allocator fill (sim/alloc/poison.c around libc malloc)', 'allocator history (seeded churn of numba arrays)']
    rep.extra['rounds'] = rounds
    rep.extra['processes_per_case'] = 4
    code = rep.finish()
    pool.close()
    return code


PIPE_PROFILE = {
    'oracles': [],
    'heuristics': ['MI-numba-randomized'],
    'minibatch': [6, 10, 25, 60],
    'batches': [1, 2],
    'delta': [0, 1],
    'ncols': [2, 3, 4, 5],
    'malformed': [0.0],
    'target_only': ['True', 'False'],
    'subsampling': [1],
    'poison': 0.0,
    'cli_extra': {'mi_stratified_sampling_ratio': lambda rng, wl: rng.choice([0.05, 0.1, 0.3, 0.53, 0.7, 0.9, 0.99])},
}


def pipeline_mode(pool, rep, rng, args, wall):
    """The whole ranking task with --mi_stratified_sampling_ratio < 1 must write the same pairwise ranks
    whatever the allocator hands out (same schedule, same hash seed; only the poison pattern differs)."""
    import copy
    import time
    from checks import pipe_common
    t0 = time.time()
    while time.time() - t0 < wall:
        fams = []
        jobs = []
        for _ in range(16):
            base = pipe_common.gen_spec(rng, PIPE_PROFILE)
            base.pop('poison', None)
            base['hashseed'] = rng.choice(pool.hashseeds)
            n = len(base['workload']['lines'])
            pal = palette(max(1, base['cli']['minibatch_size']))
            w1, w2 = rng.sample(pal, 2)
            members = []
            for pz in (None, {'mode': 0, 'word': w1[1], 'name': w1[0]}, {'mode': 0, 'word': w2[1], 'name': w2[0]}, {'mode': 1, 'seed': rng.randrange(1, 2 ** 63), 'name': 'stream'}):
                m = copy.deepcopy(base)
                if pz:
                    m['poison'] = pz
                members.append(m)
                jobs.append(pipe_common.job_of(m))
            fams.append(members)
        res = pool.run(jobs)
        pos = 0
        for members in fams:
            outs = []
            for m, r in zip(members, res[pos:pos + 4]):
                ph = pipe_common.phase_values(r)[0]['proc']
                if ph['status'] == 'died':
                    outs.append(('died', ph['signal']))
                elif ph['status'] != 'returned':
                    raise common.HarnessError(f'pipeline-mode process: {ph["status"]}')
                else:
                    v = ph['value']
                    outs.append((v.get('status'), pipe_common.exception_key(v.get('trace', '')) if v.get('status') == 'exception' else None, v.get('ranks')))
            pos += 4
            rep.evaluations += 1
            rep.add_counts(rep.probes, {'pipeline_mode_families': 1})
            rep.add_counts(rep.fault_counts, {'pipeline:poison_patterns': 3})
            if len({json.dumps(o, sort_keys=True, default=repr) for o in outs}) > 1:
                k = next(i for i, o in enumerate(outs) if o != outs[0])
                new = rep.violation('pipeline-poison-dependent', 'pipeline-poison-dependent',
                                    {'observed': {'poison_a': (members[0].get('poison') or {}).get('name'), 'poison_b': (members[k].get('poison') or {}).get('name'),
                                                  'outcome_a': str(outs[0])[:300], 'outcome_b': str(outs[k])[:300]}, 'spec': pipe_common.spec_summary(members[0])},
                                    {'pipeline_pair': [members[0], members[k]], 'seed': args.seed})
                if new and not args.keep_going:
                    return True
    return False


def replay_pipeline(args, obj):
    from checks import pipe_common
    a, b = obj['pipeline_pair']
    pool = common.ZygotePool(hashseeds=[a.get('hashseed') or 0], width=2)
    rs = pool.run([pipe_common.job_of(a), pipe_common.job_of(b)])
    pool.close()
    outs = []
    for r in rs:
        ph = pipe_common.phase_values(r)[0]['proc']
        outs.append(ph['status'] if ph['status'] != 'returned' else (ph['value'].get('status'), ph['value'].get('ranks')))
    if outs[0] != outs[1]:
        print('REPRODUCED class=pipeline-poison-dependent')
        print(f'VIOLATION property=C04 replay={args.replay}')
        return 1
    print('NOT-REPRODUCED')
    return 0


def replay(args, rep):
    with open(args.replay) as fh:
        obj = json.load(fh)
    if 'pipeline_pair' in obj:
        return replay_pipeline(args, obj)
    pool = common.ZygotePool(hashseeds=[0, 1], width=4)
    ev = evaluate(pool, [obj['group']])[0]
    ff = first_failure(ev)
    pool.close()
    if ff is not None:
        # any failure of the recorded case counts: code that reads stale memory or an entropy-seeded generator shows up
        # as a different class from run to run (the recorded class is printed for comparison)
        print(f"REPRODUCED class={ff[0]} (recorded: {obj['class']}) detail={json.dumps(ff[1], default=repr)[:600]}")
        print(f"VIOLATION property=C04 replay={args.replay}")
        return 1
    print(f'NOT-REPRODUCED expected class={obj["class"]} got={ff}')
    return 0


if __name__ == '__main__':
    common.main_wrapper(run)
