#!/venv/bin/python
"""Sensitivity self-test: every catalogued mutant must be turned into a VIOLATION by the quick check of
its property (and the replay file must reproduce it); every catalogued equivalent change must leave
the check silent.  Mutants are applied to a scratch copy of /repo's package under /tmp that is removed
immediately afterwards; /repo itself is never touched.

usage: selftest/sensitivity.py [--only m08a,m08b] [--prop C08] [--budget 60] [--equivalents]
"""
from __future__ import annotations

import argparse
import json
import os
import re
import shutil
import subprocess
import sys
import tempfile
import time

VERIF = os.path.dirname(os.path.dirname(os.path.abspath(__file__)))
sys.path.insert(0, VERIF)
from selftest.mutants import EQUIVALENT, MUTANTS  # noqa: E402


def make_copy(m, repo='/repo'):
    d = tempfile.mkdtemp(prefix=f"outrank-mut-{m['id']}-", dir='/tmp')
    shutil.copytree(os.path.join(repo, 'outrank'), os.path.join(d, 'outrank'), ignore=shutil.ignore_patterns('__pycache__'))
    for extra in ('README.md', 'docs', 'examples', 'scripts', 'benchmarks'):
        src = os.path.join(repo, extra)
        if os.path.isdir(src):
            shutil.copytree(src, os.path.join(d, extra), ignore=shutil.ignore_patterns('*.png', '*.html', '*.js'))
        elif os.path.exists(src):
            shutil.copy(src, os.path.join(d, extra))
    p = os.path.join(d, m['file'])
    s = open(p).read()
    if s.count(m['old']) != 1:
        shutil.rmtree(d, ignore_errors=True)
        raise RuntimeError(f"mutant {m['id']}: anchor text found {s.count(m['old'])} times in {m['file']} (catalogue out of date?)")
    open(p, 'w').write(s.replace(m['old'], m['new']))
    return d


def run_check(prop, repo, budget, seed=None, replay=None):
    env = dict(os.environ, VERIF_REPO=repo)
    cmd = [os.path.join(VERIF, 'check'), prop, '--tier', 'quick', '--no-evidence']
    if replay:
        cmd += ['--replay', replay]
    else:
        cmd += ['--budget', str(budget)]
        if seed is not None:
            cmd += ['--seed', str(seed)]
    t0 = time.time()
    p = subprocess.run(cmd, env=env, capture_output=True, text=True, timeout=1800)
    return p.returncode, p.stdout, time.time() - t0


def main():
    ap = argparse.ArgumentParser()
    ap.add_argument('--only', default='')
    ap.add_argument('--prop', default='')
    ap.add_argument('--budget', type=float, default=60)
    ap.add_argument('--equivalents', action='store_true')
    ap.add_argument('--out', default=os.path.join(VERIF, 'selftest', 'sensitivity_result.json'))
    a = ap.parse_args()
    todo = [(m, True) for m in MUTANTS]
    if a.equivalents or not (a.only or a.prop):
        todo += [(m, False) for m in EQUIVALENT]
    if a.only:
        ids = set(a.only.split(','))
        todo = [(m, k) for m, k in todo if m['id'] in ids]
    if a.prop:
        todo = [(m, k) for m, k in todo if m['prop'] == a.prop]
    results = []
    bad = 0
    for m, must_fail in todo:
        d = make_copy(m)
        try:
            code, out, wall = run_check(m['prop'], d, a.budget)
            line = next((l for l in out.splitlines() if l.startswith('VIOLATION')), None)
            cls = next((l.strip() for l in out.splitlines() if l.strip().startswith('class=')), '')
            entry = {'id': m['id'], 'prop': m['prop'], 'note': m['note'], 'expected': 'VIOLATION' if must_fail else 'silent', 'exit': code, 'wall_s': round(wall, 1), 'class': cls}
            if must_fail:
                ok = code == 1 and line is not None
                if ok:
                    rp = re.search(r'replay=(\S+)', line).group(1)
                    rcode, rout, _ = run_check(m['prop'], d, a.budget, replay=rp)
                    entry['replay_reproduced'] = rcode == 1 and 'REPRODUCED' in rout
                    ok = ok and entry['replay_reproduced']
                    # the replay must not fire on the unchanged tree
                    ccode, cout, _ = run_check(m['prop'], '/repo', a.budget, replay=rp)
                    entry['replay_silent_on_clean_tree'] = ccode == 0
                    ok = ok and entry['replay_silent_on_clean_tree']
                    try:
                        os.remove(rp)
                    except OSError:
                        pass
            else:
                ok = code == 0
            entry['ok'] = ok
            if not ok:
                bad += 1
                entry['tail'] = out[-1500:]
            results.append(entry)
            print(('ok   ' if ok else 'FAIL ') + json.dumps({k: entry[k] for k in ('id', 'prop', 'expected', 'exit', 'wall_s', 'class')}), flush=True)
        finally:
            shutil.rmtree(d, ignore_errors=True)
    with open(a.out, 'w') as fh:
        json.dump(results, fh, indent=1)
    print(f'sensitivity: {len(results)} entries, {bad} not as expected')
    return 1 if bad else 0


if __name__ == '__main__':
    sys.exit(main())
