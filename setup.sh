#!/bin/bash
# Build what the checks need from files on disk only (offline).  Idempotent; every check calls it
# when an artefact is missing.
set -e
cd "$(dirname "$0")"
mkdir -p build evidence replays
INC=$(/venv/bin/python -c 'import sysconfig;print(sysconfig.get_paths()["include"])')
if [ ! -f build/libpoison.so ] || [ sim/alloc/poison.c -nt build/libpoison.so ]; then
  gcc -O2 -shared -fPIC -I"$INC" -o build/libpoison.so.tmp sim/alloc/poison.c
  mv build/libpoison.so.tmp build/libpoison.so
fi
/venv/bin/python -c 'import numba, numpy, pandas, xxhash, dill, sklearn, scipy'
echo "setup ok"
