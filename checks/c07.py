"""C07 - capped combination sampling is fair over any sequence of batches (engines `hist` + `pipe`).
No fault or schedule dimension (DESIGN 4/C07): the technique contributes seeded batch histories on
the real process-global counter, per-step invariants against a counter model, shrinking and replay,
and - through the full task - the check that the counts reported in
combination_estimation_counts.json are the ones the batches actually drove."""
from __future__ import annotations

import copy
import json

from checks import common, hist_common, pipe_common


def gen(rng, tier):
    n0 = rng.choice([1, 2, 3, 5, 8, 13, 40, rng.randrange(1, 301)])
    huge = rng.random() < 0.02
    if huge:
        n0 = rng.choice([9999, 10000, 10001, 12000])          # beyond the documented 10^4 limit of the 3MR heuristics
        if tier == 'thorough' and rng.random() < 0.3:
            n0 = rng.choice([100001, 120000])                 # very large combination spaces (interaction order 3 on ~90 features)
    names = [f'f{i}' for i in range(40)]
    def mk(n, prefix):
        out, seen = [], set()
        while len(out) < n:
            k = rng.choice([2, 2, 2, 3])
            c = tuple([prefix + rng.choice(names) for _ in range(k - 1)] + [f'{prefix}u{len(out)}'])
            if c not in seen:
                seen.add(c)
                out.append(list(c))
        return out
    lists = [mk(n0, 'a')]
    if rng.random() < 0.4:
        lists.append(mk(rng.choice([1, 2, 7, rng.randrange(1, 60)]), 'b'))
    nops = rng.choice([1, 2, 3, 5, 10, 30, rng.randrange(1, 201)])
    if huge:
        nops = rng.choice([1, 2, 3])
    ops = []
    cap = rng.randrange(1, 2 * n0 + 1)
    for _ in range(nops):
        li = rng.randrange(len(lists))
        if rng.random() < 0.3:
            size = len(lists[li])
            cap = rng.choice([1, max(1, size - 1), size, size + 1, rng.randrange(1, 2 * size + 1), 2 ** 15])
        op = {'list': li, 'cap': cap}
        if rng.random() < 0.05:
            op['tick'] = rng.choice([0.5, 6.0, 3600.0, 86400.0])
        if rng.random() < 0.15:
            op['perm'] = rng.randrange(2 ** 31)
        ops.append(op)
    return {'lists': lists, 'ops': ops}


def candidates(h):
    out = []
    for ops in hist_common.ddmin_list(h['ops']):
        out.append(dict(h, ops=ops))
    for li, lst in enumerate(h['lists']):
        if len(lst) > 1:
            for sub in hist_common.ddmin_list(lst)[:12]:
                ls = copy.deepcopy(h['lists'])
                ls[li] = sub
                out.append(dict(h, lists=ls))
    if len(h['lists']) > 1 and all(op['list'] == 0 for op in h['ops']):
        out.append(dict(h, lists=h['lists'][:1]))
    for i, op in enumerate(h['ops']):
        if 'perm' in op:
            o = copy.deepcopy(h['ops'])
            del o[i]['perm']
            out.append(dict(h, ops=o))
        if op['cap'] > 1:
            o = copy.deepcopy(h['ops'])
            o[i]['cap'] = op['cap'] - 1
            out.append(dict(h, ops=o))
    return out


def signature(h, v):
    return tuple(v.get('states', [])[:3]) + (len(h['lists']), len(h['lists'][0]) > 10)


def nontrivial(h, v):
    return v.get('binding_steps', 0) > 0


def record(rep, h, v):
    if v.get('unavailable'):
        rep.add_counts(rep.probes, {'hist_driver_unavailable(signature changed; pipeline part still runs)': 1})
        return
    rep.add_counts(rep.probes, {'hist_steps': v.get('steps', 0), 'hist_cap_binding_steps': v.get('binding_steps', 0),
                                'hist_two_list_histories': 1 if len(h['lists']) > 1 else 0,
                                'hist_cap_changes': sum(1 for a, b in zip(h['ops'], h['ops'][1:]) if a['cap'] != b['cap'])})
    for s in v.get('states', []):
        rep.distinct.add(('state', s))


def cap_fn(rng, ncols):
    pairs = ncols * (ncols + 1) // 2 + ncols - 1
    return rng.choice([1, 2, 3, max(1, ncols - 1), max(1, pairs // 2), max(1, pairs - 1), rng.randrange(1, pairs + 1)])


PIPE_PROFILE = {
    'oracles': ['C07'],
    'heuristics': ['MI-numba-randomized', 'MI-numba-randomized', 'MI-numba-3mr', 'Constant'],
    'minibatch': [3, 5, 8],
    'batches': [2, 3, 5, 8, 12],
    'delta': [0, 1],
    'ncols': [2, 3, 4, 5, 6, 8],
    'target_only': ['True', 'False', 'False'],
    'malformed': [0.0, 0.1],
    'cap': cap_fn,
    'cli_extra': {'interaction_order': lambda rng, wl: 2 if len(wl['header']) <= 6 and rng.random() < 0.4 else None},
    'card_names': ['False', 'True'],
    'tail_prob': 0.08,
    'more_runs': 0.2,
    'ref_json': 0.1,
}

RULE = ('hist: history = seeded list of Batch(list, cap[, permuted order]) operations on the real prior_combinations_sample and its process-global counter in a forked process; '
        'stable duplicate-free candidate lists of 1..300 tuples, optionally a second key-disjoint list sharing the counter, 1..200 batches, caps in 1..2*size changing between batches; '
        'after every step: returned subset of candidates, all distinct, len == min(cap, size), least-evaluated-first, counter == model, max-min <= 1 within each list.  '
        'pipe: multi-batch ranking tasks (2..12 batches, pairwise / target-only, interaction order 2, 3mr) with a binding cap: same per-call predicates (spread only for duplicate-free lists) '
        'and combination_estimation_counts.json == recorded selections.  distinct_nontrivial = distinct counter multisets reached under a binding cap (hist) plus distinct pipe run shapes.')


def pipe_signature(spec, v):
    cli = spec['cli']
    return ('pipe', cli['heuristic'], cli['target_ranking_only'], len(spec['workload']['header']), cli.get('combination_number_upper_bound'), cli.get('interaction_order', 1), min(v.get('batches', 0), 6))


def pipe_nontrivial(spec, v):
    return v.get('probes', {}).get('c07_cap_binding_calls', 0) > 0


def run(args):
    if args.replay:
        with open(args.replay) as fh:
            obj = json.load(fh)
        if 'history' in obj:
            return hist_common.replay('C07', args, 'hist.sampler', hist_common.default_problem_judge)
        rep = common.Report('C07', args, 'pipe')
        return pipe_common.replay('C07', args, rep)
    rep = common.Report('C07', args, 'hist+pipe')
    rep.rule = RULE
    rep.assumptions = ['no fault dimension (DESIGN 4/C07)', 'counter model: sim/refmodel/sampler.py']
    total = args.budget or (50 if args.tier == 'quick' else 900)
    hs = [0, 1, 2, 3] if args.tier == 'quick' else [0, 1, 2, 3, 4, 5, 6, 7]
    pool = common.ZygotePool(hashseeds=hs)
    args_h = copy.copy(args)
    args_h.budget = total * 0.5
    stop = hist_common.run_check('C07', args_h, 'hist.sampler', gen, RULE, signature, nontrivial, candidates, per_round=192, per_job=12, record=record,
                                 real_components=['outrank.core_ranking.prior_combinations_sample + GLOBAL_PRIOR_COMB_COUNTS (real, forked process per history)'],
                                 stub_components=[], rep=rep, pool=pool, finish=False,
                                 sample_of=lambda h: {'list_sizes': [len(l) for l in h['lists']], 'first_candidates': h['lists'][0][:3], 'ops': h['ops'][:12], 'n_ops': len(h['ops'])})
    if not stop:
        pipe_common.run_check('C07', args, PIPE_PROFILE, RULE, pipe_signature, pipe_nontrivial, rep=rep, pool=pool, finish=False, budget=total * 0.5, crash_mode=True)
    code = rep.finish()
    pool.close()
    return code


if __name__ == '__main__':
    common.main_wrapper(run)
