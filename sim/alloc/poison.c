/* PoisonAllocator: wraps CPython's RAW memory domain.  Every freshly malloc'ed block and every
 * block about to be freed is filled with a pattern chosen by the simulator (a fixed 64-bit word
 * or a seeded xorshift stream).  calloc stays zeroed.  Dirty malloc memory is legal behaviour of
 * any allocator; code that reads memory it never wrote becomes visible as a difference between
 * runs with different patterns.  numba's NRT is routed here by memsys_use_cpython_allocator(). */
#define PY_SSIZE_T_CLEAN
#include <Python.h>
#include <malloc.h>
#include <stdint.h>
#include <string.h>

static PyMemAllocatorEx orig;
static uint64_t state = 1, seed0 = 1, word = 0;
static int mode = 0, installed = 0, active = 0;
static uint64_t n_malloc = 0, n_free = 0, n_bytes = 0;

static inline uint64_t nxt(void) { state ^= state << 13; state ^= state >> 7; state ^= state << 17; return state; }

static void fill(void *p, size_t n) {
    if (!active || !p) return;
    uint64_t *q = (uint64_t *)p;
    size_t k = n / 8;
    if (mode) {   /* stream re-seeded per block from (seed, block size): the contents of a block do not depend on how many
                     unrelated allocations the interpreter made before, so a run is repeatable */
        state = seed0 ^ ((uint64_t)n * 0x9E3779B97F4A7C15ULL); if (!state) state = 1;
        for (size_t i = 0; i < k; i++) q[i] = nxt(); }
    else      { for (size_t i = 0; i < k; i++) q[i] = word; }
    memset((char *)p + 8 * k, (int)(word & 0xff), n % 8);
    n_bytes += n;
}
static void *p_malloc(void *c, size_t n) { void *p = orig.malloc(orig.ctx, n); if (p) { n_malloc++; fill(p, n); } return p; }
static void *p_calloc(void *c, size_t a, size_t b) { return orig.calloc(orig.ctx, a, b); }
static void *p_realloc(void *c, void *o, size_t n) {
    size_t old = o ? malloc_usable_size(o) : 0;
    void *p = orig.realloc(orig.ctx, o, n);
    if (p && n > old) fill((char *)p + old, n - old);
    return p;
}
static void p_free(void *c, void *p) { if (p) { n_free++; fill(p, malloc_usable_size(p)); } orig.free(orig.ctx, p); }

void poison_install(uint64_t seed, uint64_t w, int m) {
    state = seed ? seed : 0x9E3779B97F4A7C15ULL; seed0 = state; word = w; mode = m; active = 1;
    if (installed) return;
    installed = 1;
    PyMem_GetAllocator(PYMEM_DOMAIN_RAW, &orig);
    PyMemAllocatorEx a = {NULL, p_malloc, p_calloc, p_realloc, p_free};
    PyMem_SetAllocator(PYMEM_DOMAIN_RAW, &a);
}
void poison_set(uint64_t seed, uint64_t w, int m) { state = seed ? seed : 0x9E3779B97F4A7C15ULL; seed0 = state; word = w; mode = m; active = 1; }
void poison_pause(void) { active = 0; }
uint64_t poison_stat(int which) { return which == 0 ? n_malloc : which == 1 ? n_free : n_bytes; }
