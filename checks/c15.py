"""C15 - frequency sketches err on one side only (engine `hist`).
Seams: update history, the process-global np.random stream the sketch draws its row seeds from,
and PYTHONHASHSEED (numba's hash(str) follows it)."""
from __future__ import annotations

import copy

from checks import common, hist_common

STRS = ['', 'a', 'b', 'ab', 'ba', 'abc', 'é', 'ü中', 'x' * 40, ' ', '0', '1', 'label', 'None', '1.0', '01',
        'L' * 1100 + 'a', 'L' * 1100 + 'b', '{"k": [' + '1, ' * 700 + '2]}', '{"k": [' + '1, ' * 700 + '3]}']


def gen_item(rng, universe):
    k = rng.random()
    if k < 0.45:
        return rng.choice(universe['ints'])
    if k < 0.9:
        return rng.choice(universe['strs'])
    return rng.choice([0, -1, 2 ** 31, 2 ** 32 + 5, -(2 ** 40), 2 ** 62, '', 'z' * 100])


def gen(rng, tier):
    if rng.random() < 0.3:
        bound = rng.choice([1, 2, 3, 5, 10, 50])
        nuni = rng.choice([1, 2, bound, bound + 1, 2 * bound + 3])
        uni = [rng.choice([rng.randrange(0, 50), rng.choice(STRS), f's{rng.randrange(100)}']) for _ in range(max(1, nuni))]
        n = rng.randrange(1, 120)
        if rng.random() < 0.5:
            # several counters alive in one process (the pipeline keeps one per column), fed interleaved
            k = rng.choice([2, 2, 3])
            bounds = [bound] + [rng.choice([1, 2, 3, 5, 10, 50, None]) for _ in range(k - 1)]
            return {'counter': True, 'multi': True, 'bounds': bounds, 'bound': bound, 'items': [[rng.randrange(k), rng.choice(uni)] for _ in range(n)]}
        return {'counter': True, 'bound': bound, 'items': [rng.choice(uni) for _ in range(n)]}
    depth = rng.choice([1, 1, 2, 3, 6, 8])
    width = rng.choice([1, 2, 3, 5, 8, 16, 64, 1000, 2 ** 15])
    universe = {'ints': [rng.randrange(-1000, 1000) for _ in range(rng.randrange(1, 30))] + [rng.randrange(-2 ** 62, 2 ** 62)],
                'strs': [rng.choice(STRS) for _ in range(rng.randrange(1, 8))] + [f'k{rng.randrange(10 ** 6)}' for _ in range(rng.randrange(0, 20))]}
    ops = []
    for _ in range(rng.randrange(1, 60)):
        if rng.random() < 0.85:
            ops.append(['add', gen_item(rng, universe), rng.choice([1, 1, 1, 0, 2, 5, 1000, 10 ** 6])])
        else:
            ops.append(['batch_add', [gen_item(rng, universe) for _ in range(rng.randrange(0, 6))], rng.choice([1, 1, 3])])
    h = {'depth': depth, 'width': width, 'np_seed': rng.randrange(2 ** 32), 'ops': ops}
    if rng.random() < 0.3:
        h['decoy'] = True          # a second sketch alive in the same process
    return h


def candidates(h):
    out = []
    if h.get('counter'):
        for items in hist_common.ddmin_list(h['items']):
            out.append(dict(h, items=items))
        return out
    for ops in hist_common.ddmin_list(h['ops']):
        out.append(dict(h, ops=ops))
    for i, op in enumerate(h['ops']):
        if op[0] == 'add' and op[2] != 1:
            o = copy.deepcopy(h['ops'])
            o[i][2] = 1
            out.append(dict(h, ops=o))
        if op[0] == 'batch_add' and len(op[1]) > 1:
            for j in range(len(op[1])):
                o = copy.deepcopy(h['ops'])
                o[i][1] = op[1][:j] + op[1][j + 1:]
                out.append(dict(h, ops=o))
    if h['depth'] > 1:
        out.append(dict(h, depth=1))
    if h['np_seed'] != 0:
        out.append(dict(h, np_seed=0))
    if h.get('decoy'):
        out.append({k: v for k, v in h.items() if k != 'decoy'})
    return out


def signature(h, v):
    if h.get('counter'):
        return ('counter', h['bound'], v.get('reached_bound'), v.get('counters', 1))
    w = h['width']
    return ('cms', h['depth'], 'w1' if w == 1 else 'w<=8' if w <= 8 else 'w<=64' if w <= 64 else 'wide', h.get('hashseed'), h['np_seed'] % 4)


def nontrivial(h, v):
    if h.get('counter'):
        return bool(v.get('reached_bound'))
    return v.get('collisions_seen', 0) > 0


def record(rep, h, v):
    if h.get('counter'):
        rep.add_counts(rep.probes, {'counter_histories': 1, 'counter_bound_reached': 1 if v.get('reached_bound') else 0})
    else:
        rep.add_counts(rep.probes, {'cms_histories': 1, 'cms_collision_observed': 1 if v.get('collisions_seen') else 0,
                                    'cms_weighted_updates': sum(1 for op in h['ops'] if op[0] == 'add' and op[2] not in (0, 1)),
                                    'cms_zero_weight_updates': sum(1 for op in h['ops'] if op[0] == 'add' and op[2] == 0)})


RULE = ('history = seeded stream of add(item, weight in {0,1,2,5,1000,10^6}) / batch_add over ints (negative, > 2^32, up to 2^62) and strings (empty, unicode, long) on the '
        'real CountMinSketch with depth in {1,2,3,6,8} and width in {1,2,3,5,8,16,64,1000,2^15}, np.random seed per history, hash seed per zygote; after every op: '
        'true <= query <= total for up to 60 seen items and 4 unseen probes, every row sums to total.  30% of the histories drive the bounded counter item by item '
        '(bounds 1..50, universes around the bound): never over-counts, exact while fewer than bound distinct values were seen, never more than bound keys.  '
        'distinct_nontrivial = distinct (depth, width class, hash seed, np seed class) with at least one observed collision (query > true), plus counter (bound, reached) pairs that reached the bound.')


def run(args):
    return hist_common.run_check('C15', args, 'hist.cms', gen, RULE, signature, nontrivial, candidates, per_round=256, per_job=16, record=record,
                                 real_components=['outrank.algorithms.sketches.counting_cms.CountMinSketch (numba hashing compiled from /repo)',
                                                  'outrank.algorithms.sketches.counting_counters_ordinary.PrimitiveConstrainedCounter'],
                                 stub_components=[],
                                 assumptions=['no fault dimension: seams are update history, np.random stream, hash seed', 'totals kept below 2^31 (int32 matrix)', 'ints within int64'])


if __name__ == '__main__':
    common.main_wrapper(run)
