"""Reference for the capped combination sampler (C07)."""
from __future__ import annotations

from collections import Counter


class SamplerModel:
    def __init__(self):
        self.counts = Counter()

    def check_call(self, candidates, cap, returned):
        """Validate one call against the statement; then update the model.  Returns list of problems."""
        problems = []
        cand = list(candidates)
        want = min(cap, len(cand))
        cset = set(cand)
        if any(r not in cset for r in returned):
            problems.append('returned a combination that is not a candidate')
        dup_free = len(cset) == len(cand)
        if dup_free:
            if len(returned) != want:
                problems.append(f'returned {len(returned)} combinations, expected min(cap, candidates) = {want}')
            if len(set(returned)) != len(returned):
                problems.append('returned combinations are not distinct')
            before = {c: self.counts.get(c, 0) for c in cand}
            sel = set(returned)
            rest = [before[c] for c in cand if c not in sel]
            if returned and rest and max(before[c] for c in sel if c in before) > min(rest):
                problems.append('selected a more-evaluated candidate while a less-evaluated one was left out')
        else:
            if len(returned) > want:
                problems.append(f'returned {len(returned)} combinations, more than min(cap, candidates) = {want}')
        for r in returned:
            self.counts[r] += 1
        return problems

    def spread(self, candidates):
        v = [self.counts.get(c, 0) for c in candidates]
        return (max(v) - min(v)) if v else 0
