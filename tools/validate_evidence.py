#!/usr/bin/env python3-vt
import json, sys, glob, jsonschema
sch = json.load(open('/root/.vp/EVIDENCE.schema.json'))
ok = True
for p in sorted(glob.glob(__import__('os').path.join(__import__('os').path.dirname(__import__('os').path.dirname(__import__('os').path.abspath(__file__))), 'evidence', '*.json'))):
    try:
        jsonschema.validate(json.load(open(p)), sch); print('valid', p)
    except Exception as e:
        ok = False; print('INVALID', p, str(e)[:300])
sys.exit(0 if ok else 1)
