#!/usr/bin/env python3-vt
"""Regenerates MANIFEST.json from the table below (single source of truth) and validates it."""
import json, os, sys
V = os.path.dirname(os.path.dirname(os.path.abspath(__file__)))

CLAIMED = {
 'C04': dict(engine='alloc', design='§4 C04', technique='deterministic simulation: seeded allocator-fault injection (poison/churn) across forked simulated processes, differential oracle',
   text='Seeded exploration of (Y, X, r, correction) cases, each executed in 4 simulated processes that differ in allocator behaviour (natural heap with seeded churn, two fixed poison words, a poison stream) and hash seed, 3 repetitions each; oracle = normal termination, finite, bit-identical score everywhere, unchanged under alterations of Y outside the reference sampler\'s rows, quota-0 = full data. Sampling, not proof.',
   note='Trusted: numba NRT routes through PyMem RAW after memsys_use_cpython_allocator(); the C shim fills fresh and freed blocks; crash = death-by-signal of the forked child. The reference sampler (sim/refmodel/subsample.py) is the statement\'s quota rule.'),
}

NOT_APPLICABLE = {
 'C01': 'pure function of two integer vectors: no schedule, clock, I/O, fault, crash point or carried state for a simulator to decide',
 'C02': 'pure function of the vectors and the relabelling; no schedule/fault dimension (its defect was nevertheless found and fixed through the C04/C05 simulations)',
 'C03': 'pure function of two vectors; the ranking corollary quantifies over generator seeds only',
 'C10': 'compute_combined_features is a pure function of the frame and the tuple list; its only stateful part (the capped sampler) is C07',
 'C11': 'each constructor is a pure function of frame and flags; nothing in the statement depends on schedule, time, I/O or history',
 'C12': 'pure evaluation of formula strings on a numeric column',
 'C16': 'each parser is a pure function of one line; stream-level effects are absorbed by Python\'s io layer before repo code sees a line (CSV rows entering batches are cross-checked by C08\'s workload)',
 'C17': 'pure function of three dictionaries',
 'C18': 'pure transformation of one TSV file into another',
 'C19': 'pure function of (arguments, seed); generate_data reseeds on entry',
 'C20': 'pure functions of (array, arguments, RNG stream); no I/O, time or concurrency',
}

def main():
    props = [json.loads(l)['id'] for l in open(os.path.join(V, 'properties.jsonl'))]
    checks = []
    for pid in props:
        if pid in CLAIMED and os.path.exists(os.path.join(V, 'checks', pid.lower() + '.py')):
            c = CLAIMED[pid]
            checks.append({
                'property_id': pid,
                'quick_cmd': f'./check {pid} --tier quick',
                'thorough_cmd': f'./check {pid} --tier thorough',
                'evidence_file': f'evidence/{pid}.json',
                'replay_cmd_template': f'./check {pid} --replay {{path}}',
                'engine': c['engine'],
                'level_claimed': {'category': 'exploration', 'text': c['text'], 'design_ref': c['design']},
                'level_note': c['note'],
                'technique': c['technique'],
            })
    claimed_ids = {c['property_id'] for c in checks}
    na = [{'property_id': p, 'reason': r} for p, r in NOT_APPLICABLE.items()]
    pending = [p for p in props if p not in claimed_ids and p not in NOT_APPLICABLE]
    m = {
        'version': 1,
        'setup_cmd': 'bash ./setup.sh',
        'hooks': {
            'guard': 'OUTRANK_VERIF',
            'enable': 'no source hooks: every seam is an injected argument, a module attribute or an interpreter/allocator API; checks import /repo\'s working tree directly (VERIF_REPO overrides the path)',
            'baseline_off_cmd': 'cd /repo && /venv/bin/python -m pytest -ra -q -p no:cacheprovider --timeout=900 --continue-on-collection-errors',
            'source_commits': [],
            'add_only': True,
        },
        'engines': [
            {'name': 'alloc', 'path': 'sim/engines/alloc_engine.py', 'serves_properties': ['C04'], 'kind_free_text': 'real numba estimator in forked simulated processes under a poisoning allocator and seeded allocation history'},
            {'name': 'pipe', 'path': 'sim/engines/pipe_engine.py', 'serves_properties': ['C05', 'C06', 'C07', 'C08', 'C09', 'C13'], 'kind_free_text': 'the real ranking task end to end under SimPool (seeded scheduler), SimClock (virtual time), SimFS (crash points) and per-zygote hash seeds'},
            {'name': 'hist', 'path': 'sim/engines/hist_engine.py', 'serves_properties': ['C07', 'C13', 'C14', 'C15'], 'kind_free_text': 'seeded operation histories on the real process-global structures in forked simulated processes against exact reference models'},
        ],
        'checks': checks,
        'not_applicable': na,
        'notes': 'Technique: deterministic simulation with fault injection (see DESIGN.md). Exit 0 ok / 1 VIOLATION / 2 HARNESS-ERROR.'
                 + (' Checks still being built (claimed in DESIGN.md, not yet registered): ' + ', '.join(pending) if pending else ''),
    }
    with open(os.path.join(V, 'MANIFEST.json'), 'w') as fh:
        json.dump(m, fh, indent=1)
    try:
        import jsonschema
        jsonschema.validate(m, json.load(open('/root/.vp/MANIFEST.schema.json')))
        print('MANIFEST valid;', len(checks), 'checks;', len(na), 'not applicable; pending', pending)
    except ImportError:
        print('jsonschema not available in this interpreter; wrote MANIFEST without validation')

if __name__ == '__main__':
    main()
