#!/venv/bin/python
"""Determinism self-test: one seed = one exactly repeatable execution.

For every engine a list of jobs is generated from seeds; every job is executed twice in the same
orchestrator (different zygote server processes serve the repeats), then the whole stage is repeated
in a second orchestrator process with another PYTHONHASHSEED for the harness itself and another
zygote-pool width.  All result digests (trace digest, decisions, yield counts, outputs, verdicts) must
be pairwise equal, and the generated job lists must be identical.

usage: selftest/determinism.py [--seeds N] [--stage-out file]   (exit 0 = deterministic)
"""
from __future__ import annotations

import argparse
import hashlib
import json
import os
import random
import subprocess
import sys

VERIF = os.path.dirname(os.path.dirname(os.path.abspath(__file__)))
sys.path.insert(0, VERIF)


def digest(obj):
    return hashlib.blake2b(json.dumps(obj, sort_keys=True, default=repr).encode(), digest_size=12).hexdigest()


PIPE_KEYS = ['status', 'violations', 'probes', 'stats', 'yield_counts', 'sim_now', 'digest', 'events', 'decisions', 'batches', 'batches_done',
             'ranks', 'files', 'interleaving', 'reordered_amaps', 'pool_mode', 'chunks', 'crash', 'ckpt_write_open']


def pipe_digest(res):
    out = []
    if res['status'] != 'returned':
        return digest(res['status'])
    for ph in res['value']['phases']:
        pr = ph['proc']
        if pr['status'] != 'returned':
            out.append(pr['status'])
            continue
        v = pr['value']
        out.append({k: v.get(k) for k in PIPE_KEYS})
        out.append(ph.get('crash_verdict'))
        out.append(ph.get('disk_files'))
    return digest(out)


def build_jobs(nseeds):
    from checks import c04, c05, c06, c07, c08, c09, c13, c14, c15, pipe_common
    jobs = []
    hs = [0, 1, 2, 3]
    for seed in range(nseeds):
        rng = random.Random(f'determinism/{seed}')
        # pipe: one spec from each profile, half of them with a kill + restart
        prof5, _ = c05.profile()
        for name, prof in (('c05', prof5), ('c06', c06.PROFILE), ('c07', c07.PIPE_PROFILE), ('c08', c08.PROFILE), ('c13', c13.PIPE_PROFILE)):
            s = pipe_common.gen_spec(rng, prof)
            s['hashseed'] = rng.choice(hs)
            if name == 'c08' and rng.random() < 0.7:
                s['phases'] = [{'crash': [rng.choice(['sleep', 'chunk', 'readline', 'batch-return', 'write:ranking_checkpoint_tmp.tsv', 'closed-w:ranking_checkpoint_tmp.tsv']), rng.randrange(1, 4)]}, {}]
            jobs.append(('pipe', pipe_common.job_of(s)))
        fam = c09.gen_family(rng, hs, 'quick')
        for m in fam['members'][:3]:
            jobs.append(('pipe', pipe_common.job_of(m)))
        # hist
        for fn, gen in (('hist.sampler', c07.gen), ('hist.stats', c13.gen), ('hist.cms', c15.gen)):
            h = gen(rng, 'quick')
            h['hashseed'] = rng.choice(hs)
            jobs.append(('hist', {'fn': fn, 'timeout': 90, 'args': {'histories': [h]}, 'hashseed': h['hashseed']}))
        h = c14.gen(rng, 'quick')
        while h.get('shape') == 'real-boundary' and seed % 8:
            h = c14.gen(rng, 'quick')
        h['hashseed'] = rng.choice(hs)
        jobs.append(('hist', {'fn': 'hist.hll', 'timeout': 120, 'args': {'histories': [h]}, 'hashseed': h['hashseed']}))
        # alloc
        cases = [c04.gen_case(rng, 'quick') for _ in range(5)]
        specs = c04.specs_for(rng, 50)
        for j in c04.make_jobs(cases, specs, rng.randrange(2 ** 31)):
            j['hashseed'] = rng.choice(hs)
            jobs.append(('alloc', j))
    return jobs


def stage(nseeds, width, out):
    from sim.orch import ZygotePool
    jobs = build_jobs(nseeds)
    pool = ZygotePool(hashseeds=[0, 1, 2, 3], width=width)
    doubled = [j for _, j in jobs] + [j for _, j in jobs]
    res = pool.run(doubled)
    pool.close()
    n = len(jobs)
    rows = []
    for i, (eng, j) in enumerate(jobs):
        dg = []
        for r in (res[i], res[n + i]):
            if eng == 'pipe':
                dg.append(pipe_digest(r))
            elif eng == 'alloc':
                # allocator statistics (number of RAW mallocs of the interpreter itself) are not part of the simulated behaviour
                dg.append(digest(r['value']['cases'] if r['status'] == 'returned' else r['status']))
            else:
                dg.append(digest({k: v for k, v in r.items() if k not in ('id',)}))
        rows.append({'engine': eng, 'fn': j['fn'], 'job': digest(j), 'run1': dg[0], 'run2': dg[1]})
    with open(out, 'w') as fh:
        json.dump(rows, fh)
    return rows


def main():
    ap = argparse.ArgumentParser()
    ap.add_argument('--seeds', type=int, default=int(os.environ.get('VERIF_DET_SEEDS', '24')))
    ap.add_argument('--stage-out', default=None)
    ap.add_argument('--width', type=int, default=16)
    a = ap.parse_args()
    if a.stage_out:
        stage(a.seeds, a.width, a.stage_out)
        return 0
    base = os.path.join(VERIF, 'build')
    os.makedirs(base, exist_ok=True)
    outs = []
    for hseed, width in (('0', 16), ('7', 5)):
        out = os.path.join(base, f'determinism-{hseed}.json')
        env = dict(os.environ, PYTHONHASHSEED=hseed, PYTHONDONTWRITEBYTECODE='1')
        p = subprocess.run(['/venv/bin/python', os.path.abspath(__file__), '--seeds', str(a.seeds), '--width', str(width), '--stage-out', out], env=env)
        if p.returncode != 0:
            print('HARNESS-ERROR determinism stage failed')
            return 2
        outs.append(json.load(open(out)))
    a_rows, b_rows = outs
    bad = 0
    per_engine = {}
    if len(a_rows) != len(b_rows):
        print(f'job lists differ in length between orchestrator hash seeds: {len(a_rows)} vs {len(b_rows)}')
        return 1
    for ra, rb in zip(a_rows, b_rows):
        per_engine.setdefault(ra['engine'], [0, 0])
        per_engine[ra['engine']][0] += 1
        ds = {ra['run1'], ra['run2'], rb['run1'], rb['run2']}
        if ra['job'] != rb['job']:
            print(f"NONDETERMINISTIC job generation: {ra['fn']} differs between orchestrator hash seeds")
            bad += 1
        elif len(ds) != 1:
            print(f"NONDETERMINISTIC {ra['engine']} {ra['fn']} job={ra['job']}: {ra['run1']} {ra['run2']} | {rb['run1']} {rb['run2']}")
            bad += 1
            per_engine[ra['engine']][1] += 1
    print(f'determinism: {len(a_rows)} jobs x 4 executions (2 repeats x 2 orchestrators: hash seeds 0/7, widths 16/5); per engine {per_engine}; divergent={bad}')
    return 1 if bad else 0


if __name__ == '__main__':
    sys.exit(main())
