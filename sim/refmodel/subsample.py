"""Reference for the stratified sub-sampler's row selection (C04)."""
from __future__ import annotations

import struct


def f32(x):
    """The float32 value of x, as a Python float (no numpy needed)."""
    return struct.unpack('<f', struct.pack('<f', float(x)))[0]


def quota(X, r):
    n = len(X)
    nvals = len(set(X))
    fss = int(f32(r) * n)          # float32 value multiplied in float64, as the compiled code does
    return fss, int(fss / nvals)


def sample_indices(X, r):
    """Row indices used by the estimator at ratio r<1, in the estimator's order (stratum by
    stratum in ascending code order, first `quota` rows of each); None = all rows (quota 0)."""
    fss, q = quota(X, r)
    if q == 0:
        return None
    pos = {}
    for i, v in enumerate(X):
        lst = pos.setdefault(v, [])
        if len(lst) < q:
            lst.append(i)
    out = []
    for v in sorted(pos):
        out.extend(pos[v])
    return out


def has_unwritten_tail(X, r):
    """True when floor(r*n) exceeds the number of selected rows (some stratum < quota or the
    quota does not divide floor(r*n)) - the only cases where an unwritten buffer tail can exist."""
    fss, q = quota(X, r)
    if q == 0:
        return False
    idx = sample_indices(X, r)
    return len(idx) < fss
