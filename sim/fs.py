"""SimFS - an interposer (not a fake file system) on builtins.open / os.remove for paths under the
simulated process' private directory.  Every open / line read / write / close / remove is a logged
yield point at which the simulator may kill the process.  A kill is a kill: the process ends
without unwinding, so user-space buffers are lost and completed write()s survive (in
`write-through` mode every write() reaches the OS immediately; in `buffered` mode Python's own
buffering decides, as in a real run).  Power loss, EIO, ENOSPC are not injected (DESIGN 2.5).
"""
from __future__ import annotations

import builtins
import os

_REAL_OPEN = builtins.open
_REAL_REMOVE = os.remove
_REAL_UNLINK = os.unlink


class SimFile:
    def __init__(self, fs, real, path, mode):
        self.__dict__['_fs'] = fs
        self.__dict__['_real'] = real
        self.__dict__['_path'] = path
        self.__dict__['_name'] = os.path.basename(path)
        self.__dict__['_mode'] = mode
        self.__dict__['_writing'] = any(c in mode for c in 'wax+')
        self.__dict__['_closed'] = False

    # delegation ---------------------------------------------------------------------------
    def __getattr__(self, name):
        return getattr(self._real, name)

    def __setattr__(self, name, value):
        setattr(self._real, name, value)

    def __enter__(self):
        return self

    def __exit__(self, *exc):
        self.close()
        return False

    def __iter__(self):
        return self

    def __next__(self):
        self._fs.sim.yield_point('readline', self._name)
        line = self._real.readline()
        if not line:
            raise StopIteration
        return line

    def readline(self, *a):
        self._fs.sim.yield_point('readline', self._name)
        return self._real.readline(*a)

    def read(self, *a):
        self._fs.sim.yield_point('read', self._name)
        return self._real.read(*a)

    def write(self, data):
        fs = self._fs
        fs.sim.yield_point('write', self._name)
        n = self._real.write(data)
        fs.writes += 1
        if fs.write_through:
            self._real.flush()
        return n

    def writelines(self, lines):
        for ln in lines:
            self.write(ln)

    def flush(self):
        return self._real.flush()

    def close(self):
        if self._closed:
            return
        fs = self._fs
        if self._writing:
            fs.sim.yield_point('close-w', self._name)
        self._real.close()
        self.__dict__['_closed'] = True
        fs.sim.trace.log('fs.close', self._name, self._mode)
        if self._writing:
            fs.open_writes.discard(self._path)
            for cb in fs.on_close_write:
                cb(self._path)
            fs.sim.yield_point('closed-w', self._name)

    @property
    def raw(self):
        r = self._real.raw
        if self._fs.short_reads:
            return _ShortRaw(self._fs, r)
        return r

    @property
    def closed(self):
        return self._real.closed


class _ShortRaw:
    """Raw layer that returns short reads (legal POSIX behaviour)."""

    def __init__(self, fs, raw):
        self._fs = fs
        self._raw = raw

    def __getattr__(self, name):
        return getattr(self._raw, name)

    def read(self, n=-1):
        if n is None or n < 0:
            return self._raw.read(n)
        k = 1 + self._fs.sim.d.draw('fs.short', max(1, min(n, 4096)))
        self._fs.sim.count('short_read')
        return self._raw.read(min(n, k))


class SimFS:
    def __init__(self, sim, root, write_through=True, short_reads=False):
        self.sim = sim
        self.root = os.path.realpath(root) + os.sep
        self.write_through = write_through
        self.short_reads = short_reads
        self.open_writes = set()
        self.on_close_write = []
        self.writes = 0
        self.installed = False

    def _mine(self, path):
        if isinstance(path, int):
            return False
        try:
            p = os.path.realpath(os.fspath(path))
        except TypeError:
            return False
        return p.startswith(self.root)

    def install(self):
        fs = self

        def sim_open(file, mode='r', *a, **kw):
            if not fs._mine(file):
                return _REAL_OPEN(file, mode, *a, **kw)
            path = os.path.realpath(os.fspath(file))
            name = os.path.basename(path)
            writing = any(c in mode for c in 'wax+')
            if writing:
                fs.sim.yield_point('open-w', name)
            else:
                fs.sim.yield_point('open-r', name)
            real = _REAL_OPEN(file, mode, *a, **kw)
            fs.sim.trace.log('fs.open', name, mode)
            if writing:
                fs.open_writes.add(path)
                fs.sim.yield_point('opened-w', name)
            return SimFile(fs, real, path, mode)

        def sim_remove(path, *a, **kw):
            if fs._mine(path):
                fs.sim.yield_point('remove', os.path.basename(os.fspath(path)))
                fs.sim.trace.log('fs.remove', os.path.basename(os.fspath(path)))
            return _REAL_REMOVE(path, *a, **kw)

        builtins.open = sim_open
        os.remove = sim_remove
        self.installed = True

    def uninstall(self):
        builtins.open = _REAL_OPEN
        os.remove = _REAL_REMOVE
        self.installed = False


def real_open(*a, **kw):
    """Fresh, un-instrumented handle (used by oracles to look at the disk)."""
    return _REAL_OPEN(*a, **kw)
