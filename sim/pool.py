"""SimPool - a deterministic stand-in for pathos.multiprocessing.ProcessingPool.

Semantics copied from multiprocess.Pool.map_async (what pathos' amap calls):
  * chunksize, extra = divmod(len(items), 4 * nworkers); chunksize += bool(extra)
  * chunks go to a FIFO task queue; WHICH idle worker takes the next chunk is a seeded choice
  * every chunk gets a seeded service time; completion order is whatever the event heap says
  * the function is shipped per chunk through dill (private copy of the closure)
  * results are stored by chunk index; get() returns them in submission order
  * every simulated worker owns its own `random` / `np.random` state (snapshot taken at pool
    creation = fork time of real workers) and private shadow contents of every module-level
    mutable container of outrank.* - what a worker mutates is invisible to the parent and to the
    other workers, as with real forked workers.
The chunk body (real repo code) executes at the virtual instant of its completion event.
Not modelled: worker death, pickling failures, memory pressure.
"""
from __future__ import annotations

import collections
import copy
import hashlib
import random
import sys
import types

import dill
import numpy as np

_CONTAINER_TYPES = (dict, list, set, collections.deque)

SERVICE_MODES = ['instant', 'ms', 'seconds', 'mixed', 'stall-one', 'reverse']


def _module_containers():
    out = []
    for mname in sorted(sys.modules):
        if mname != 'outrank' and not mname.startswith('outrank.'):
            continue
        mod = sys.modules[mname]
        if mod is None:
            continue
        for name in sorted(vars(mod)):
            if name.startswith('__'):
                continue
            obj = vars(mod)[name]
            if isinstance(obj, _CONTAINER_TYPES) and not isinstance(obj, types.ModuleType):
                out.append((mod, name))
    return out


def _get_contents(obj):
    if isinstance(obj, dict):
        return dict(obj)
    if isinstance(obj, (list, collections.deque)):
        return list(obj)
    return set(obj)


def _set_contents(obj, contents):
    if isinstance(obj, dict):
        obj.clear()
        obj.update(contents)
    elif isinstance(obj, list):
        obj[:] = contents
    elif isinstance(obj, collections.deque):
        obj.clear()
        obj.extend(contents)
    else:
        obj.clear()
        obj.update(contents)


class _WorkerState:
    """Process-local state of one simulated worker.  numpy's legacy global stream is inherited at fork;
    CPython re-seeds the global `random` instance of every forked child from OS entropy, so a worker's
    `random` stream is arbitrary - here: decided by the simulator."""

    def __init__(self, tracked, py_seed):
        self.py_random = random.Random(py_seed).getstate()
        self.np_random = np.random.get_state()
        self.shadow = {}
        for mod, name in tracked:
            try:
                self.shadow[(mod.__name__, name)] = copy.deepcopy(_get_contents(getattr(mod, name)))
            except Exception:  # noqa: BLE001 - uncopyable content: share (documented limit)
                self.shadow[(mod.__name__, name)] = _get_contents(getattr(mod, name))


class SimAsyncResult:
    def __init__(self, pool, nchunks):
        self.pool = pool
        self.chunks = [None] * nchunks
        self.done = 0
        self.error = None

    def ready(self):
        # run events that are due right now (zero service times)
        self.pool.sim.advance(0.0)
        return self.done == len(self.chunks)

    def wait(self, timeout=None):
        self._block()

    def _block(self):
        sim = self.pool.sim
        guard = 0
        while self.done < len(self.chunks):
            if not sim.pending():
                raise RuntimeError('SimPool: result can never become ready (no pending events)')
            nxt = sim._heap[0][0]
            sim.advance(max(0.0, nxt - sim.now))
            guard += 1
            if guard > 10 ** 6:
                raise RuntimeError('SimPool: get() does not terminate')

    def successful(self):
        return self.ready() and self.error is None

    def get(self, timeout=None):
        self._block()
        if self.error is not None:
            raise self.error
        out = []
        for c in self.chunks:
            out.extend(c)
        return out


class SimPool:
    def __init__(self, sim, nworkers, cfg=None):
        self.sim = sim
        self.n = max(1, int(nworkers))
        self.ncpus = self.nodes = self.n        # attributes a pathos ProcessingPool exposes
        self.cfg = cfg or {}
        self.tracked = _module_containers()
        self.workers = [_WorkerState(self.tracked, sim.d.draw('pool.worker_random', 2 ** 30)) for _ in range(self.n)]
        self.idle = list(range(self.n))
        self.queue = collections.deque()
        self.amap_calls = 0
        self.closed = False
        self.completion_log = []     # (amap_id, chunk_idx, worker)
        d = sim.d
        self.mode = self.cfg.get('service_mode') or SERVICE_MODES[d.draw('pool.mode', len(SERVICE_MODES))]
        self.stalled_worker = d.draw('pool.stalled', self.n)
        sim.trace.log('pool', self.n, self.mode)

    # ---- pathos API ---------------------------------------------------------------------
    def __enter__(self):
        return self           # pathos: `with pool` does not close anything either

    def __exit__(self, *exc):
        return False

    def close(self):
        self.closed = True
        self.sim.trace.log('pool.close')

    def join(self):
        self.sim.run_until_idle()
        self.sim.trace.log('pool.join')

    def terminate(self):
        self.closed = True

    def clear(self):
        pass

    def restart(self, force=False):
        self.closed = False

    def amap(self, f, *iterables):
        items = list(zip(*iterables)) if len(iterables) > 1 else list(iterables[0])
        star = len(iterables) > 1
        return self._submit(f, items, star)

    def map(self, f, *iterables):
        return self.amap(f, *iterables).get()

    def imap(self, f, *iterables):
        return iter(self.map(f, *iterables))

    def uimap(self, f, *iterables):
        items = list(zip(*iterables)) if len(iterables) > 1 else list(iterables[0])
        res = self._submit(f, items, len(iterables) > 1, chunksize=1)
        res._block()
        order = [c for (a, c, w) in self.completion_log if a == res.amap_id]
        return iter([res.chunks[c][0] for c in order])

    apipe = None

    # ---- scheduling ---------------------------------------------------------------------
    def _service_time(self, worker):
        d = self.sim.d
        m = self.mode
        if m == 'instant':
            return 0.0
        if m == 'ms':
            return d.draw('pool.svc', 50) / 1000.0
        if m == 'seconds':
            return d.draw('pool.svc', 10000) / 1000.0
        if m == 'reverse':
            self._rev = getattr(self, '_rev', 10 ** 4) - 1
            return max(0.0, self._rev / 10.0)
        if m == 'stall-one':
            if worker == self.stalled_worker and d.chance('pool.stall', 1, 2):
                self.sim.count('stall')
                return float(100 + d.draw('pool.svc', 9900))
            return d.draw('pool.svc', 3000) / 1000.0
        # mixed
        k = d.draw('pool.svcclass', 10)
        if k < 4:
            return 0.0
        if k < 7:
            return d.draw('pool.svc', 50) / 1000.0
        if k < 9:
            return d.draw('pool.svc', 20000) / 1000.0
        self.sim.count('stall')
        return float(100 + d.draw('pool.svc', 9900))

    def _submit(self, f, items, star, chunksize=None):
        if self.closed:
            raise ValueError('Pool not running')
        self.amap_calls += 1
        amap_id = self.amap_calls
        if chunksize is None:
            chunksize, extra = divmod(len(items), self.n * 4)
            if extra:
                chunksize += 1
        if len(items) == 0:
            chunksize = 0
        chunks = [items[i:i + chunksize] for i in range(0, len(items), chunksize)] if chunksize else []
        res = SimAsyncResult(self, len(chunks))
        res.amap_id = amap_id
        self.sim.trace.log('amap', amap_id, len(items), chunksize, len(chunks), hashlib.blake2b(repr(items).encode(), digest_size=8).hexdigest())
        self.sim.yield_point('amap')
        for ci, chunk in enumerate(chunks):
            self.queue.append((res, ci, f, chunk, star))
        self._dispatch()
        return res

    def _dispatch(self):
        while self.queue and self.idle:
            k = self.sim.d.draw('pool.assign', len(self.idle))
            w = self.idle.pop(k)
            res, ci, f, chunk, star = self.queue.popleft()
            st = self._service_time(w)
            self.sim.trace.log('chunk.start', res.amap_id, ci, w, round(self.sim.now, 6), round(st, 6))
            self.sim.after(st, self._complete, res, ci, f, chunk, star, w)

    def _complete(self, res, ci, f, chunk, star, w):
        self.sim.yield_point('chunk')
        try:
            out = self._run_in_worker(w, f, chunk, star)
        except Exception as e:  # noqa: BLE001 - a worker exception is re-raised by get(), as in multiprocess
            res.error = e
            out = []
        res.chunks[ci] = out
        res.done += 1
        self.completion_log.append((res.amap_id, ci, w))
        self.sim.trace.log('chunk.done', res.amap_id, ci, w, round(self.sim.now, 6))
        self.idle.append(w)
        self.idle.sort()
        self._dispatch()

    def _run_in_worker(self, w, f, chunk, star):
        ws = self.workers[w]
        # ship function + items the way multiprocess does: one pickle per task
        f2, chunk2 = dill.loads(dill.dumps((f, chunk)))
        # swap in process-local state
        parent_py, parent_np = random.getstate(), np.random.get_state()
        random.setstate(ws.py_random)
        np.random.set_state(ws.np_random)
        saved = []
        for mod, name in self.tracked:
            obj = getattr(mod, name)
            saved.append((mod, name, obj, _get_contents(obj)))
            _set_contents(obj, ws.shadow[(mod.__name__, name)])
        try:
            if star:
                return [f2(*x) for x in chunk2]
            return [f2(x) for x in chunk2]
        finally:
            ws.py_random, ws.np_random = random.getstate(), np.random.get_state()
            random.setstate(parent_py)
            np.random.set_state(parent_np)
            for mod, name, obj, contents in saved:
                cur = getattr(mod, name)
                try:
                    ws.shadow[(mod.__name__, name)] = _get_contents(cur)
                except TypeError:
                    pass
                setattr(mod, name, obj)
                _set_contents(obj, contents)

    # ---- reporting ----------------------------------------------------------------------
    def interleaving_signature(self):
        h = hashlib.blake2b(digest_size=8)
        h.update(repr(self.completion_log).encode())
        return h.hexdigest()

    def reordered(self):
        """Number of amap calls in which at least two chunks completed out of submission order."""
        per = {}
        for a, c, w in self.completion_log:
            per.setdefault(a, []).append(c)
        return sum(1 for v in per.values() if v != sorted(v))
