"""Engine `pipe`: the real ranking task (outrank.__main__.main) end to end inside a simulated
process: SimPool instead of pathos, SimClock instead of time, SimFS interposer with crash points,
optional PoisonAllocator, hash seed fixed by the zygote.  Monitors on module attributes observe
the rows entering every mini-batch, the frame entering the rank graph, the triplets coming back,
every sampler call and the on-disk checkpoint; the oracles (reference models in sim/refmodel)
run inside the simulated process and report violations tagged with the property they belong to.
"""
from __future__ import annotations

import hashlib
import json
import math
import os
import re
import shutil
import sys
import tempfile
import traceback

import numpy as np

import outrank.__main__ as outrank_main
import outrank.core_ranking as core_ranking
import outrank.task_ranking as task_ranking

from sim import fs as simfs
from sim import proc
from sim.alloc import alloc
from sim.core import Decisions, Sim, SimCrash, SimStuck
from sim.engines import register
from sim.pool import SimPool
from sim.refmodel import aggregate, heuristics, pairs, sampler, stats, streaming
from sim import workload as wlmod

CKPT = 'ranking_checkpoint_tmp.tsv'
# the monitored functions as imported from /repo, before any monitor wraps them (a long-lived simulated process
# installs fresh monitors for every task it runs)
_PRISTINE = {n: getattr(core_ranking, n) for n in ('compute_batch_ranking', 'mixed_rank_graph', 'prior_combinations_sample', 'estimate_importances_minibatches')}
# heuristics for which a --reference_model_JSON run is part of the workload (the numba estimators take the (n,1) matrix the
# reference-model plumbing hands them; the other non-surrogate scorers are not written for that shape)
REFJSON_HEURISTICS = {'MI-numba-randomized', 'MI-numba-3mr', 'Constant'}
MI_HEURISTICS = {'MI', 'MI-numba-randomized', 'MI-numba-3mr', 'max-value-coverage', 'correlation-Pearson', 'AMI', 'Constant'}


import time as _time_mod
import types as _types

# the real functions, captured before any simulated process patches the module
_REAL_TIME_FUNCS = _types.SimpleNamespace(**{k: getattr(_time_mod, k) for k in dir(_time_mod) if not k.startswith('__')})


class _SimTime:
    def __init__(self, sim):
        self._sim = sim

    def sleep(self, d):
        self._sim.yield_point('sleep')
        self._sim.count('sleep')
        # a sleep may legally return late (loaded machine, suspended process): seeded oversleep / clock jump
        extra = 0.0
        k = self._sim.d.draw('clock.oversleep', 40)
        if k == 0:
            extra = float(self._sim.d.draw('clock.jump', 3600))
            self._sim.count('clock_jump')
        elif k < 6:
            extra = self._sim.d.draw('clock.late', 2000) / 1000.0
            self._sim.count('oversleep')
        self._sim.advance(float(d) + extra)

    def time(self):
        return 1.7e9 + self._sim.now

    def monotonic(self):
        return self._sim.now

    perf_counter = monotonic

    def __getattr__(self, name):
        return getattr(_REAL_TIME_FUNCS, name)


class _ShortSleep:
    """time module stand-in for runs with the REAL pool: really sleeps, but only 20 ms per poll."""

    def __init__(self, sim):
        self._sim = sim

    def sleep(self, d):
        import time as _t
        self._sim.count('sleep')
        self._sim.now += float(d)
        _t.sleep(0.02)

    def __getattr__(self, name):
        import time as _t
        return getattr(_t, name)


class _TTY:
    """stdout of a simulated process that is attached to a terminal (output is discarded)."""

    def write(self, s):
        return len(s)

    def flush(self):
        pass

    def isatty(self):
        return True

    def fileno(self):
        return 1


class _LogProxy:
    """Stands in for the `logging` module object inside outrank.task_ranking (which is also what the
    streaming loop receives as its logger): records messages, emits nothing."""

    def __init__(self):
        self.messages = []

    def _rec(self, msg, *a, **k):
        self.messages.append(str(msg))

    info = warning = warn = error = debug = critical = exception = _rec

    def __getattr__(self, name):
        import logging
        return getattr(logging, name)


def _coded(values):
    try:
        for v in values:
            if v is None or (isinstance(v, float) and math.isnan(v)):
                return None
        return heuristics.codes(values)
    except TypeError:
        return None


class Monitors:
    def __init__(self, sim, spec, wl, cli, shared=None, run_index=0):
        shared = shared if shared is not None else {}
        self.shared = shared
        self.run_index = run_index
        self.sim = sim
        self.spec = spec
        self.wl = wl
        self.cli = cli
        self.oracles = set(spec.get('oracles', []))
        self.violations = []
        self.obs = {}
        self.probes = {}
        self.batches_rows = []         # rows of each compute_batch_ranking call
        self.batch_triplets = []       # triplets returned per batch
        # process-global state outlives a task: the sampler's counter and the statistics storages of a long-lived
        # interpreter keep what earlier tasks of the same process fed them
        self.sampler_model = shared.setdefault('sampler_model', sampler.SamplerModel())
        self.col_prev = shared.setdefault('col_prev', {})
        self.task_sampler_model = sampler.SamplerModel()      # reading 'counts per task' (a code base may reset the counter per run)
        self.sampler_calls = 0
        self.log = _LogProxy()
        self.expected = streaming.batches(wl['lines'], cli['subsampling'], cli['minibatch_size'])
        self.heuristic = cli['heuristic']
        if cli['task'] in ('identify_rare_values', 'feature_summary_transformers'):
            self.heuristic = 'Constant'
        self.plain = self._plain_construction()
        self.ckpt_closes = 0
        self.ckpt_closes_at_last_return = 0
        self.stream_returned = False
        self.graph_calls = 0

    def _plain_construction(self):
        c = self.cli
        return (not c.get('feature_set_focus') and c.get('transformers', 'none') == 'none' and c.get('explode_multivalue_features', 'False') == 'False'
                and c.get('subfeature_mapping', 'False') == 'False' and c.get('interaction_order', 1) == 1 and not c.get('reference_model_JSON')
                and c.get('include_noise_baseline_features', 'False') != 'True')

    def probe(self, k, n=1):
        self.probes[k] = self.probes.get(k, 0) + n

    def violate(self, prop, cls, detail):
        if len(self.violations) < 20:
            if self.run_index:
                detail = dict(detail, task_number_in_process=self.run_index + 1)
            self.violations.append({'property': prop, 'class': cls, 'detail': detail})

    def history(self, j, col, rows=None):
        """All values column `col` has shown to the statistics of this PROCESS: earlier tasks + this one."""
        rows = rows if rows is not None else [r for b in self.batches_rows for r in b]
        return self.col_prev.get(col, []) + [r[j] for r in rows]

    def histories(self, j, col, rows=None):
        """The statement does not say whether 'the consumed rows' of a second task in a long-lived interpreter are those of
        the task or of the process; both readings are accepted (the check fails only if the code matches neither)."""
        rows = rows if rows is not None else [r for b in self.batches_rows for r in b]
        cur = [r[j] for r in rows]
        prev = self.col_prev.get(col, [])
        return [prev + cur, cur] if prev else [cur]

    def end_of_task(self):
        focus = self.cli.get('feature_set_focus')
        keep = None if not focus else set(focus.split(',')) | {self.cli['label_column']}
        rows = [r for b in self.batches_rows for r in b]
        for j, col in enumerate(self.wl['header']):
            if keep is None or col in keep:
                self.col_prev[col] = self.col_prev.get(col, []) + [r[j] for r in rows]

    # ------------------------------------------------------------------------------ install
    def install(self):
        m = self
        cr = core_ranking
        orig_cbr = _PRISTINE['compute_batch_ranking']
        orig_mrg = _PRISTINE['mixed_rank_graph']
        orig_pcs = _PRISTINE['prior_combinations_sample']
        orig_eim = _PRISTINE['estimate_importances_minibatches']

        # the wrappers are signature-transparent (*a, **kw): a refactoring that adds a parameter to one of the
        # monitored functions must not look like a defect of the code under test
        def _arg(a, kw, pos, name):
            return a[pos] if len(a) > pos else kw.get(name)

        def compute_batch_ranking(*a, **kw):
            m.on_batch_entry(_arg(a, kw, 0, 'line_tmp_storage'))
            out = orig_cbr(*a, **kw)
            m.on_batch_return(out)
            return out

        def mixed_rank_graph(*a, **kw):
            input_dataframe = _arg(a, kw, 0, 'input_dataframe')
            args = _arg(a, kw, 1, 'args')
            frame = {c: input_dataframe[c].tolist() for c in input_dataframe.columns} if (m.oracles & {'C05', 'C06'}) else None
            cols = list(input_dataframe.columns)
            out = orig_mrg(*a, **kw)
            m.on_graph(cols, frame, args, out)
            return out

        def prior_combinations_sample(*a, **kw):
            cand = list(_arg(a, kw, 0, 'combinations'))
            cap = _arg(a, kw, 1, 'args').combination_number_upper_bound
            out = orig_pcs(*a, **kw)
            m.on_sampler(cand, cap, list(out))
            return out

        def estimate_importances_minibatches(*a, **kw):
            out = orig_eim(*a, **kw)
            m.on_stream_end(out)
            return out

        cr.compute_batch_ranking = compute_batch_ranking
        cr.mixed_rank_graph = mixed_rank_graph
        cr.prior_combinations_sample = prior_combinations_sample
        cr.estimate_importances_minibatches = estimate_importances_minibatches
        task_ranking.estimate_importances_minibatches = estimate_importances_minibatches
        task_ranking.logging = self.log

    # ------------------------------------------------------------------------------ C08 / C13
    def _disk_checkpoint(self):
        p = os.path.join(os.getcwd(), CKPT)
        if not os.path.exists(p):
            return None
        with simfs.real_open(p, encoding='utf-8', newline='') as fh:
            return fh.read()

    def check_checkpoint(self, where):
        """disk checkpoint == median aggregation of all batches recorded so far"""
        if 'C08' not in self.oracles or self.heuristic == 'Constant' or not self.batch_triplets:
            return
        text = self._disk_checkpoint()
        exp = aggregate.median_by_pair(t for b in self.batch_triplets for t in b)
        if text is None:
            self.violate('C08', 'checkpoint-missing', {'where': where, 'batches_done': len(self.batch_triplets)})
            return
        try:
            got = aggregate.parse_checkpoint(text)
        except ValueError as e:
            self.violate('C08', 'checkpoint-unparsable', {'where': where, 'error': str(e), 'head': text[:300]})
            return
        self.probe('checkpoint_checked')
        if set(got) != set(exp):
            self.violate('C08', 'checkpoint-pairs', {'where': where, 'batches_done': len(self.batch_triplets),
                                                      'missing': sorted(set(exp) - set(got))[:5], 'extra': sorted(set(got) - set(exp))[:5]})
            return
        for k, v in exp.items():
            if not aggregate.same_score(got[k], v):
                self.violate('C08', 'checkpoint-score', {'where': where, 'pair': k, 'on_disk': got[k], 'median_of_batches': v,
                                                          'batches_done': len(self.batch_triplets)})
                return

    def on_batch_entry(self, rows):
        k = len(self.batches_rows)
        rows = [list(r) for r in rows]
        self.batches_rows.append(rows)
        self.sim.trace.log('batch', k, len(rows), hashlib.blake2b(repr(rows).encode(), digest_size=8).hexdigest())
        self.sim.yield_point('batch-entry')
        if 'C08' in self.oracles:
            exp = self.expected['batches']
            if k >= len(exp):
                self.violate('C08', 'extra-batch', {'batch': k, 'rows': len(rows), 'expected_batches': len(exp)})
            elif rows != exp[k]:
                d = next((i for i, (a, b) in enumerate(zip(rows, exp[k])) if a != b), min(len(rows), len(exp[k])))
                self.violate('C08', 'batch-rows', {'batch': k, 'got_rows': len(rows), 'expected_rows': len(exp[k]), 'first_diff_at': d,
                                                    'got': rows[d] if d < len(rows) else None, 'expected': exp[k][d] if d < len(exp[k]) else None})
            if k >= 1:
                self.check_checkpoint(f'entry of batch {k}')

    def on_batch_return(self, out):
        summary = out[0]
        trip = [(a, b, float(s)) for a, b, s in summary.triplet_scores]
        self.batch_triplets.append(trip)
        self.ckpt_closes_at_last_return = self.ckpt_closes
        self.sim.trace.log('batch.done', len(self.batch_triplets), len(trip),
                           hashlib.blake2b(repr(sorted((a, b, repr(s)) for a, b, s in trip)).encode(), digest_size=8).hexdigest())
        self.sim.yield_point('batch-return')
        if 'C13' in self.oracles:
            self.check_stats_running(out[2])

    def check_stats_running(self, coverage_storage):
        """after every batch: sketch size / bounded counters / rare values vs exact recomputation (file columns only)"""
        header = self.wl['header']
        rows = [r for b in self.batches_rows for r in b]
        missing = set(self.cli['missing_value_symbols'].split(','))
        last = self.batches_rows[-1]
        focus = self.cli.get('feature_set_focus')
        for j, col in enumerate(header):
            if focus and col not in set(focus.split(',')) | {self.cli['label_column']}:
                continue
            cands = self.histories(j, col, rows)
            vals = cands[0]
            sk = core_ranking.GLOBAL_CARDINALITY_STORAGE.get(col)
            exact = stats.distinct_nonempty(vals)
            if sk is None:
                self.violate('C13', 'no-sketch', {'column': col})
                continue
            if not any(len(sk) == stats.distinct_nonempty(h) for h in cands) and exact <= 2 ** 17:
                hashed = len({core_ranking.internal_hash(v) for v in vals if v})
                if hashed == len(sk) and exact - hashed <= max(1, exact * exact // 2 ** 30):
                    self.probe('hash32_collision_explained')
                else:
                    self.violate('C13', 'cardinality-running', {'column': col, 'sketch': len(sk), 'exact': exact, 'batches': len(self.batches_rows)})
            cov = coverage_storage.get(col) if hasattr(coverage_storage, 'get') else None
            expc = stats.coverage(last, len(header), missing)[j]
            if cov is None or abs(cov - expc) > 1e-9:
                self.violate('C13', 'coverage-batch', {'column': col, 'got': cov, 'exact': expc, 'batch': len(self.batches_rows) - 1})
            cnt = core_ranking.GLOBAL_COUNTS_STORAGE.get(col)
            bound = self.cli['max_unique_hist_constraint']
            models = []
            for h in cands:
                model = stats.BoundedCounter(bound)
                for v in h:
                    model.add(v)
                models.append(model)
            if cnt is None or not any(dict(cnt.default_counter) == dict(mm.c) for mm in models):
                self.violate('C13', 'value-counter-running', {'column': col, 'batches': len(self.batches_rows),
                                                               'got_size': None if cnt is None else len(cnt.default_counter), 'model_size': len(model.c)})
        if self.cli['task'] == 'identify_rare_values':
            thr = self.cli['rare_value_count_upper_bound']
            by_col = {col: self.history(j, col, rows) for j, col in enumerate(header)}
            exp = stats.rare_values(by_col, thr)
            exp_task = stats.rare_values({col: [r[j] for r in rows] for j, col in enumerate(header)}, thr)
            # constructed columns (MULTIEX-*, SUBFEATURE-*, interactions ...) are counted too; the model covers the file's columns
            got = {k: v for k, v in core_ranking.GLOBAL_RARE_VALUE_STORAGE.items() if k[0] in header}
            if got != exp and got != exp_task:
                diff = sorted(set(got.items()) ^ set(exp.items()), key=repr)[:6]
                self.violate('C13', 'rare-values-running', {'threshold': thr, 'batches': len(self.batches_rows), 'difference': diff})

    def on_stream_end(self, out):
        self.stream_returned = True
        self.sim.yield_point('stream-end')
        if 'C08' in self.oracles:
            exp = self.expected
            if len(self.batches_rows) < len(exp['batches']):
                self.violate('C08', 'missing-batch', {'got_batches': len(self.batches_rows), 'expected_batches': len(exp['batches']),
                                                       'tail_rows': exp['tail_rows'], 'tail_used': exp['tail_used']})
            self.check_checkpoint('end of stream')
            # invalid-row accounting (observable through the log only)
            nums = [int(x) for msg in self.log.messages if 'invalid' in msg.lower() for x in re.findall(r'Detected (\d+) invalid', msg)]
            if exp['skipped'] > 0:
                # any wording is accepted: some logged message has to carry the count
                mentioned = any(str(exp['skipped']) in re.findall(r'\d+', msg) for msg in self.log.messages if ' set to: ' not in msg)
                if nums and nums[0] != exp['skipped']:
                    self.violate('C08', 'invalid-count', {'reported': nums[0], 'expected': exp['skipped']})
                elif not nums and not mentioned:
                    self.violate('C08', 'invalid-count-unreported', {'expected': exp['skipped'], 'messages': self.log.messages[-3:]})
                else:
                    self.probe('invalid_rows_counted')
            elif nums and nums[0] != 0:
                self.violate('C08', 'invalid-count', {'reported': nums[0], 'expected': 0})
            # the grouped frame returned to the caller is the median aggregation too
            try:
                g = out[1]
                if g is not None and self.batch_triplets:
                    got = {(r.FeatureA, r.FeatureB): float(r.Score) for r in g.itertuples(index=False)}
                    want = aggregate.median_by_pair(t for b in self.batch_triplets for t in b)
                    if set(got) != set(want) or any(not aggregate.same_score(got[k], want[k]) for k in want):
                        bad = next((k for k in want if k not in got or not aggregate.same_score(got[k], want[k])), None)
                        self.violate('C08', 'grouped-frame', {'pair': bad, 'got': got.get(bad), 'median_of_batches': want.get(bad)})
            except (AttributeError, IndexError, TypeError):
                self.probe('grouped_frame_unreadable')

    # ------------------------------------------------------------------------------ C05 / C06
    def on_graph(self, cols, frame, args, out):
        self.graph_calls += 1
        trip = list(out.triplet_scores)
        if 'C07' in self.oracles:
            cap = self.cli.get('combination_number_upper_bound', 2 ** 15)
            if '3mr' in self.heuristic:
                cap = min(cap, 10 ** 4)
            evaluated = len(trip) if args.heuristic == 'Constant' else len(trip) // 2
            if evaluated > cap:
                self.violate('C07', 'more-than-cap-evaluated', {'evaluated': evaluated, 'cap': cap, 'heuristic': args.heuristic})
        heuristic = args.heuristic
        label = args.label_column
        if args.reference_model_JSON:
            self.probe('reference_model_json_graphs')
            if any(' AND ' in c for c in cols):
                self.probe('reference_model_json_combined_features_in_graph')
        if 'C06' in self.oracles:
            self.check_pairs(cols, trip, args)
        if 'C05' in self.oracles and frame is not None:
            self.check_combined_columns(cols, frame)
        if 'C05' in self.oracles and frame is not None and heuristic in MI_HEURISTICS and float(getattr(args, 'mi_stratified_sampling_ratio', 1.0)) >= 1.0 \
                and (not args.reference_model_JSON or heuristic in REFJSON_HEURISTICS):
            coded = {}
            ref_scores, got_scores = [], []
            checked = 0
            for a, b, s in trip:
                if a not in frame or b not in frame:
                    continue
                for c in (a, b):
                    if c not in coded:
                        coded[c] = _coded(frame[c])
                if coded[a] is None or coded[b] is None:
                    self.probe('uncodable_column')
                    continue
                s = float(s)
                # conditioning side: the label if it is in the pair, else either orientation
                if heuristic == 'Constant':
                    cands = [0.0]
                elif b == label and a != label:
                    cands = [(a, b)]
                elif a == label and b != label:
                    cands = [(b, a)]
                else:
                    cands = [(a, b), (b, a)]
                if heuristic != 'Constant':
                    if heuristic == 'max-value-coverage' and heuristics.max_coverage_has_bucket_collision(coded[a], coded[b]):
                        self.probe('coverage_bucket_collision_skipped')
                        continue
                    cands = [heuristics.reference_score(heuristic, coded[x], coded[y]) for x, y in cands]
                checked += 1
                if not any(heuristics.close(s, r) for r in cands):
                    self.violate('C05', 'score-mismatch', {'heuristic': heuristic, 'pair': [a, b], 'label': label, 'emitted': s, 'reference': cands,
                                                            'rows': len(frame[a]), 'A': frame[a][:30], 'B': frame[b][:30]})
                    break
                ref_scores.append(cands[0])
                got_scores.append(s)
            self.probe('c05_triplets_checked', checked)
            if heuristic != 'Constant' and len(got_scores) > 1:
                fin_ref = [r for r in ref_scores if not math.isnan(r)]
                fin_got = [g for g in got_scores if not math.isnan(g)]
                if fin_ref and max(fin_ref) - min(fin_ref) > 1e-3 and fin_got and max(fin_got) - min(fin_got) == 0:
                    self.violate('C05', 'degraded-to-constant', {'heuristic': heuristic, 'emitted': fin_got[0], 'reference_range': [min(fin_ref), max(fin_ref)]})

    def check_combined_columns(self, cols, frame):
        """A row that names 'p AND q' is read as a score of the joint column: the constructed column that entered the rank graph
        must partition the rows like the joint values of its parts (either as value tuples or as the repository's separator-less
        concatenation - both accepted, so that the oracle does not depend on how joint values are fingerprinted)."""
        header = set(self.wl['header'])
        if any(' AND ' in h for h in header):
            self.probe('combined_column_check_skipped_marker_in_header')
            return
        for c in cols:
            if c in header or ' AND ' not in c:
                continue
            parts = c.split(' AND ')
            if not all(p in header and p in frame for p in parts):
                continue
            got = frame[c]
            tuples = list(zip(*[[str(v) for v in frame[p]] for p in parts]))
            concat = [''.join(t) for t in tuples]

            def same_partition(x, y):
                return len(set(zip(x, y))) == len(set(x)) == len(set(y))
            self.probe('combined_columns_checked')
            if not (same_partition(got, tuples) or same_partition(got, concat)):
                self.violate('C05', 'combined-feature-content', {'column': c, 'parts': parts, 'distinct_in_column': len(set(got)),
                                                                 'distinct_joint_values': len(set(tuples)), 'rows': len(got),
                                                                 'first_rows': [list(t) for t in tuples[:8]]})
                return

    def check_pairs(self, cols, trip, args):
        label = args.label_column
        heuristic = args.heuristic
        target_only = args.target_ranking_only == 'True'
        is_3mr = '3mr' in heuristic
        req = pairs.requested_pairs(cols, label, target_only, is_3mr)
        opt = pairs.optional_pairs(cols, label, target_only, is_3mr)
        colset = set(cols)
        # the cap the user asked for on the command line (3MR heuristics are documented to clamp it to 10^4), not whatever
        # the args object holds by the time the graph is built
        cap = self.cli.get('combination_number_upper_bound', 2 ** 15)
        if is_3mr:
            cap = min(cap, 10 ** 4)
        bad = [t for t in trip if t[0] not in colset or t[1] not in colset]
        if bad:
            self.violate('C06', 'foreign-column', {'triplet': list(bad[0]), 'columns': cols[:20]})
            return
        got = {frozenset((a, b)) for a, b, _ in trip}
        if not got <= (req | opt):
            self.violate('C06', 'unrequested-pair', {'pair': sorted(next(iter(got - req - opt))), 'mode': 'target-only' if target_only else 'pairwise', '3mr': is_3mr, 'columns': cols[:20]})
            return
        if heuristic == 'Constant':
            evaluated = len(trip)
            from collections import Counter
            if any(float(s) != 0.0 for _, _, s in trip):
                self.violate('C06', 'constant-nonzero', {'triplet': [list(t) for t in trip if float(t[2]) != 0.0][:1]})
        else:
            from collections import Counter
            cnt = Counter((a, b, repr(float(s))) for a, b, s in trip)
            for (a, b, s), c in cnt.items():
                if a != b and cnt.get((b, a, s), 0) != c:
                    self.violate('C06', 'orientation-missing', {'triplet': [a, b, s], 'count': c, 'mirror_count': cnt.get((b, a, s), 0)})
                    return
            if len(trip) % 2:
                self.violate('C06', 'odd-triplet-count', {'triplets': len(trip)})
                return
            evaluated = len(trip) // 2
        ncand_lo = len(req)
        nonlabel = [c for c in cols if c != label]
        ncand_hi = len(req | opt) + (len(nonlabel) if not target_only else 0)
        if cap >= ncand_hi:
            self.probe('c06_cap_not_binding')
            if not req <= got:
                self.violate('C06', 'pair-lost', {'missing': [sorted(p) for p in list(req - got)[:4]], 'requested': len(req), 'got': len(got), 'cap': cap,
                                                   'mode': 'target-only' if target_only else 'pairwise', '3mr': is_3mr})
        else:
            self.probe('c06_cap_binding')
            if not (min(cap, ncand_lo) <= evaluated <= min(cap, ncand_hi)):
                self.violate('C06', 'cap-count', {'evaluated': evaluated, 'cap': cap, 'candidates': [ncand_lo, ncand_hi]})

    # ------------------------------------------------------------------------------ C07
    def on_sampler(self, cand, cap, returned):
        self.sampler_calls += 1
        user_cap = self.cli.get('combination_number_upper_bound', 2 ** 15)
        if '3mr' in self.heuristic:
            user_cap = min(user_cap, 10 ** 4)
        cap = user_cap
        if 'C07' not in self.oracles:
            for r in returned:
                self.sampler_model.counts[r] += 1
            return
        problems = self.sampler_model.check_call(cand, cap, returned)
        problems_task = self.task_sampler_model.check_call(cand, cap, returned) if self.run_index else problems
        if problems and not problems_task:
            problems = []
        if cap < len(cand):
            self.probe('c07_cap_binding_calls')
        for p in problems:
            self.violate('C07', 'sampler-call', {'problem': p, 'call': self.sampler_calls, 'cap': cap, 'candidates': len(cand), 'returned': len(returned)})
        actual = dict(core_ranking.GLOBAL_PRIOR_COMB_COUNTS)
        model = {k: v for k, v in self.sampler_model.counts.items()}
        model_task = {k: v for k, v in self.task_sampler_model.counts.items() if v} if self.run_index else None
        nz = {k: v for k, v in actual.items() if v}
        if nz != {k: v for k, v in model.items() if v} and nz != model_task:
            bad = next(k for k in set(actual) | set(model) if actual.get(k, 0) != model.get(k, 0))
            self.violate('C07', 'counter-drift', {'combination': list(bad), 'counter': actual.get(bad, 0), 'selections': model.get(bad, 0), 'call': self.sampler_calls})

    # ------------------------------------------------------------------------------ end of task
    def final_checks(self, outdir, status):
        res = {}
        ranks_path = os.path.join(outdir, 'pairwise_ranks.tsv')
        ranks = None
        if os.path.exists(ranks_path):
            with simfs.real_open(ranks_path, encoding='utf-8', newline='') as fh:
                text = fh.read()
            try:
                ranks = aggregate.parse_ranks(text)
            except (ValueError, IndexError) as e:
                if 'C08' in self.oracles:
                    self.violate('C08', 'ranks-unparsable', {'error': str(e), 'head': text[:300]})
        if ranks is not None:
            res['ranks'] = sorted((a, b, repr(s)) for a, b, s in ranks)
        exp_batches = self.expected['batches']
        if 'C08' in self.oracles and status == 'completed':
            if exp_batches and self.cli['task'] == 'ranking':
                if ranks is None:
                    self.violate('C08', 'no-output', {'expected_batches': len(exp_batches)})
                else:
                    want = aggregate.median_by_pair(t for b in self.batch_triplets for t in b)
                    got = {}
                    for a, b, s in ranks:
                        key = (aggregate.strip_annotation(a)[0], aggregate.strip_annotation(b)[0])
                        if key in got:
                            self.violate('C08', 'duplicate-output-pair', {'pair': key})
                        got[key] = s
                    if set(got) != set(want):
                        self.violate('C08', 'output-pairs', {'missing': sorted(set(want) - set(got))[:4], 'extra': sorted(set(got) - set(want))[:4]})
                    else:
                        for k, v in want.items():
                            if not aggregate.same_score(got[k], v):
                                self.violate('C08', 'output-score', {'pair': k, 'written': got[k], 'median_of_batches': v,
                                                                      'per_batch': [s for b in self.batch_triplets for (x, y, s) in b if (x, y) == k][:8]})
                                break
                    if not aggregate.ascending([s for _, _, s in ranks]):
                        self.violate('C08', 'not-ascending', {'scores_head': [s for _, _, s in ranks][:10]})
        if 'C13' in self.oracles and status == 'completed' and ranks is not None and self.cli.get('include_cardinality_in_feature_names', 'True') == 'True':
            self.check_annotations(ranks)
        if 'C13' in self.oracles and status == 'completed' and self.cli['task'] == 'ranking' and exp_batches:
            self.check_value_repetitions(outdir)
        if 'C13' in self.oracles and self.cli['task'] == 'identify_rare_values' and exp_batches and status in ('completed', 'exit', 'exception'):
            before = len(self.violations)
            self.check_rare_report(outdir)
            res['rare_report_ok'] = len(self.violations) == before
        if 'C07' in self.oracles and status == 'completed' and self.cli['task'] == 'ranking' and exp_batches:
            self.check_counts_json(outdir)
        return res

    def check_annotations(self, ranks):
        header = self.wl['header']
        rows = [r for b in self.batches_rows for r in b]
        missing = set(self.cli['missing_value_symbols'].split(','))
        seen = {}
        for a, b, _ in ranks:
            for name in (a, b):
                plain, card, cov = aggregate.strip_annotation(name)
                if card is None:
                    self.violate('C13', 'annotation-missing', {'name': name})
                    return
                seen[plain] = (card, cov)
        for plain, (card, cov) in seen.items():
            if plain not in header:
                continue
            j = header.index(plain)
            exact = stats.distinct_nonempty(self.history(j, plain, rows))
            exact_any = {stats.distinct_nonempty(h) for h in self.histories(j, plain, rows)}
            per_batch = [stats.coverage(b, len(header), missing)[j] for b in self.batches_rows]
            expcov = stats.annotation_coverage(per_batch)
            if card not in exact_any:
                vals = self.history(j, plain, rows)
                hashed = len({core_ranking.internal_hash(v) for v in vals if v})
                if hashed == card and exact - hashed <= max(1, exact * exact // 2 ** 30):
                    self.probe('hash32_collision_explained')
                else:
                    self.violate('C13', 'annotation-cardinality', {'feature': plain, 'annotated': card, 'exact': exact})
            if cov != expcov:
                self.violate('C13', 'annotation-coverage', {'feature': plain, 'annotated': cov, 'exact': expcov, 'per_batch': per_batch[:6]})
            self.probe('annotations_checked')

    def check_value_repetitions(self, outdir):
        p = os.path.join(outdir, 'value_repetitions.json')
        if not os.path.exists(p):
            self.violate('C13', 'no-value-repetitions', {})
            return
        with simfs.real_open(p) as fh:
            got = json.load(fh)
        header = self.wl['header']
        rows = [r for b in self.batches_rows for r in b]
        bound = self.cli['max_unique_hist_constraint']
        for j, col in enumerate(header):
            if col not in got:
                if not self.cli.get('feature_set_focus'):
                    self.violate('C13', 'histogram-missing-column', {'column': col})
                continue
            exps = []
            for vals in self.histories(j, col, rows):
                if len(set(vals)) >= bound:
                    model = stats.BoundedCounter(bound)
                    for v in vals:
                        model.add(v)
                    counts = model.c
                    self.probe('counter_bound_reached')
                else:
                    from collections import Counter
                    counts = Counter(vals)
                exps.append({str(k): v for k, v in stats.repetition_histogram(counts).items()})
            exp = exps[0]
            if {str(k): v for k, v in got[col].items()} not in exps:
                self.violate('C13', 'value-repetitions', {'column': col, 'written': got[col], 'exact': exp})
            self.probe('histograms_checked')

    def check_rare_report(self, outdir):
        p = os.path.join(outdir, 'rare_values.tsv')
        header = self.wl['header']
        rows = [r for b in self.batches_rows for r in b]
        thr = self.cli['rare_value_count_upper_bound']
        exp = stats.rare_values({col: self.history(j, col, rows) for j, col in enumerate(header)}, thr)
        exp_task = stats.rare_values({col: [r[j] for r in rows] for j, col in enumerate(header)}, thr)
        if not os.path.exists(p):
            self.violate('C13', 'no-rare-report', {'expected_entries': len(exp)})
            return
        with simfs.real_open(p, encoding='utf-8', newline='') as fh:
            hdr, body = aggregate.parse_tsv(fh.read())
        got = {}
        for r in body:
            if len(r) >= 3:
                try:
                    c = int(r[2])
                except ValueError:
                    self.violate('C13', 'rare-report-malformed', {'row': r, 'threshold': thr})
                    return
                if (r[0], r[1]) in got:
                    self.violate('C13', 'rare-report-duplicate-row', {'row': r, 'threshold': thr})
                    return
                if r[0] in header:          # rows about constructed columns are outside the model
                    got[(r[0], r[1])] = c
        if got != exp and got != exp_task:
            diff = sorted(set(got.items()) ^ set(exp.items()), key=repr)[:6]
            self.violate('C13', 'rare-report', {'threshold': thr, 'difference': diff, 'written': len(got), 'exact': len(exp)})
        self.probe('rare_reports_checked')

    def check_counts_json(self, outdir):
        p = os.path.join(outdir, 'combination_estimation_counts.json')
        if not os.path.exists(p):
            self.violate('C07', 'no-counts-json', {})
            return
        with simfs.real_open(p) as fh:
            got = json.load(fh)
        exp = {str(k): v for k, v in self.sampler_model.counts.items()}
        g = {k: v for k, v in got.items() if v}
        e = {k: v for k, v in exp.items() if v}
        e_task = {str(k): v for k, v in self.task_sampler_model.counts.items() if v} if self.run_index else None
        if g != e and g != e_task:
            bad = next(k for k in set(g) | set(e) if g.get(k) != e.get(k))
            self.violate('C07', 'counts-json', {'combination': bad, 'reported': g.get(bad), 'selections': e.get(bad)})
        self.probe('counts_json_checked')


DEFAULT_CLI = {
    'task': 'ranking', 'data_source': 'csv-raw', 'heuristic': 'MI-numba-randomized', 'minibatch_size': 16384, 'subsampling': 1,
    'combination_number_upper_bound': 2 ** 15, 'missing_value_symbols': ',{}', 'include_noise_baseline_features': 'False',
    'include_cardinality_in_feature_names': 'True', 'num_threads': 1, 'label_column': 'label', 'max_unique_hist_constraint': 30000,
    'transformers': 'none', 'rare_value_count_upper_bound': 1, 'feature_set_focus': None, 'interaction_order': 1, 'reference_model_JSON': '',
    'target_ranking_only': 'True', 'explode_multivalue_features': 'False', 'subfeature_mapping': 'False', 'mi_stratified_sampling_ratio': 1.0,
}


def build_argv(cli, data_path):
    argv = ['outrank', '--data_path', data_path, '--output_folder', 'out', '--disable_tqdm', 'True']
    for k, v in cli.items():
        if v is None or (k == 'reference_model_JSON' and v == ''):
            continue
        argv += [f'--{k}', str(v)]
    return argv


def simulated_process(spec, phase, root):
    """Body of one simulated process (runs in its own fork)."""
    wl = spec['workload']
    cli = dict(DEFAULT_CLI)
    cli.update(spec.get('cli', {}))
    cli['label_column'] = spec.get('cli', {}).get('label_column', wl['label'])
    if wl.get('source'):
        cli['data_source'] = wl['source']
    work = os.path.join(root, 'work')
    os.makedirs(work, exist_ok=True)
    os.chdir(work)
    if spec.get('ref_json'):
        # a hand-made reference-model description (the --reference_model_JSON knob), private to this simulated machine
        with open(os.path.join(work, 'ref_model.json'), 'w') as fh:
            json.dump(spec['ref_json'], fh)
        cli['reference_model_JSON'] = 'ref_model.json'
    d = Decisions(seed=phase.get('seed', spec.get('seed')), replay=phase.get('replay', spec.get('replay')))
    sim = Sim(d)
    if phase.get('crash'):
        sim.crash_at = (phase['crash'][0], int(phase['crash'][1]))
    fscfg = spec.get('fs', {})
    fs = simfs.SimFS(sim, root, write_through=fscfg.get('write_through', True), short_reads=fscfg.get('short_reads', False))
    shared = {}
    mon = Monitors(sim, spec, wl, cli, shared=shared)
    pools = []

    def _on_close(path):
        if os.path.basename(path) == CKPT:
            mon.ckpt_closes += 1
    fs.on_close_write.append(_on_close)

    def pool_factory(n=None, *a, **kw):
        p = SimPool(sim, n or 1, {'service_mode': spec.get('service_mode')})
        pools.append(p)
        return p

    def collect(status, extra=None):
        out = {'status': status, 'violations': mon.violations, 'probes': mon.probes, 'stats': dict(sim.stats),
               'yield_counts': dict(sim.yield_counts), 'sim_now': sim.now, 'digest': sim.trace.digest(), 'events': sim.trace.n,
               'decisions': d.export(), 'batches': len(mon.batches_rows), 'batches_done': len(mon.batch_triplets),
               'expected_batches': len(mon.expected['batches']), 'tail_rows': mon.expected['tail_rows'], 'tail_used': mon.expected['tail_used'],
               'skipped': mon.expected['skipped'], 'graph_calls': mon.graph_calls, 'sampler_calls': mon.sampler_calls,
               'interleaving': [p.interleaving_signature() for p in pools], 'reordered_amaps': sum(p.reordered() for p in pools),
               'pool_mode': [p.mode for p in pools], 'chunks': sum(len(p.completion_log) for p in pools),
               'stream_returned': mon.stream_returned,
               'ckpt_write_open': any(os.path.basename(p) == CKPT for p in fs.open_writes)}
        if spec.get('ship_trace'):
            out['trace'] = sim.trace.events[:spec.get('ship_trace')]
        if extra:
            out.update(extra)
        return out

    def crash_now():
        # a kill: report what the monitors know and end the process without unwinding
        exp = None
        if mon.batch_triplets:
            agg = aggregate.median_by_pair(t for b in mon.batch_triplets for t in b)
            exp = sorted([a, b, v] for (a, b), v in agg.items())
            prev = None
            if len(mon.batch_triplets) > 1:
                agg2 = aggregate.median_by_pair(t for b in mon.batch_triplets[:-1] for t in b)
                prev = sorted([a, b, v] for (a, b), v in agg2.items())
        else:
            prev = None
        proc.die(collect('crashed', {'crash': sim.crashed_at, 'expected_checkpoint': exp, 'expected_checkpoint_prev': prev,
                                     'stream_returned': mon.stream_returned,
                                     'ckpt_closed_after_last_batch': mon.ckpt_closes > mon.ckpt_closes_at_last_return}))

    sim.crash_action = crash_now
    alloc.install(spec.get('poison'))
    mon.install()
    if spec.get('real_pool'):
        # stub-fidelity run (DESIGN 4.5): the real pathos pool with real forked workers; only the polling sleep is shortened
        core_ranking.time = _ShortSleep(sim)
    else:
        st = _SimTime(sim)
        core_ranking.time = st
        core_ranking.timer = lambda: sim.now
        task_ranking.Pool = pool_factory
        # every clock the simulated process can read is the simulator's: also for code that imports `time` itself
        import time as _real_time
        _real_time.sleep = st.sleep
        _real_time.time = st.time
        _real_time.monotonic = st.monotonic
        _real_time.perf_counter = st.monotonic
    if spec.get('tty'):
        sys.stdout = _TTY()
    fs.install()
    argv = build_argv(cli, os.path.join(root, 'data'))
    old_argv = sys.argv
    sys.argv = argv
    status, extra = 'completed', {}
    try:
        outrank_main.main()
    except SystemExit as e:
        status = 'exit'
        extra['exit_code'] = e.code
    except SimCrash:
        status = 'crashed-unwound'
    except SimStuck as e:
        status = 'stuck'
        extra['error'] = str(e)
    except BaseException:  # noqa: BLE001
        status = 'exception'
        extra['trace'] = traceback.format_exc()[-2500:]
    finally:
        sys.argv = old_argv
        fs.uninstall()
    try:
        extra.update(mon.final_checks(os.path.join(work, 'out'), status))
    except BaseException:  # noqa: BLE001
        extra['final_check_error'] = traceback.format_exc()[-1500:]
    # digests of everything the task wrote (same-seed repeats must agree byte for byte)
    files = {}
    outdir = os.path.join(work, 'out')
    if os.path.isdir(outdir):
        for f in sorted(os.listdir(outdir)):
            if f == 'arguments.json':
                continue       # echoes --data_path, i.e. the name of the simulated machine's private directory
            with simfs.real_open(os.path.join(outdir, f), 'rb') as fh:
                files[f] = hashlib.blake2b(fh.read(), digest_size=8).hexdigest()
    extra['files'] = files
    extra['ckpt_left'] = os.path.exists(os.path.join(work, CKPT))
    first = collect(status, extra)
    # ---- a long-lived interpreter: further tasks in the SAME simulated process (process-global state carried over)
    later = []
    for ri, more in enumerate(spec.get('more_runs') or [], start=1):
        if status in ('stuck', 'crashed-unwound') or 'final_check_error' in extra:
            break
        mon.end_of_task()
        wl2 = more.get('workload') or wl
        cli2 = dict(cli)
        cli2.update(more.get('cli', {}))
        mon = Monitors(sim, spec, wl2, cli2, shared=shared, run_index=ri)
        mon.install()
        fs.install()
        argv2 = build_argv(cli2, os.path.join(root, more.get('data_dir', 'data')))
        argv2[argv2.index('--output_folder') + 1] = f'out{ri}'
        sys.argv = argv2
        st2, ex2 = 'completed', {}
        try:
            outrank_main.main()
        except SystemExit as e:
            st2 = 'exit'
        except SimStuck as e:
            st2 = 'stuck'
            ex2['error'] = str(e)
        except BaseException:  # noqa: BLE001
            st2 = 'exception'
            ex2['trace'] = traceback.format_exc()[-2500:]
        finally:
            sys.argv = old_argv
            fs.uninstall()
        try:
            ex2.update(mon.final_checks(os.path.join(work, f'out{ri}'), st2))
        except BaseException:  # noqa: BLE001
            ex2['final_check_error'] = traceback.format_exc()[-1500:]
        later.append(dict(ex2, status=st2, violations=mon.violations, probes=mon.probes, stream_returned=mon.stream_returned,
                          expected_batches=len(mon.expected['batches']), batches=len(mon.batches_rows), cli=more.get('cli', {})))
        status = st2 if st2 == 'stuck' else status
    if later:
        first['later_runs'] = later
        first['digest'] = sim.trace.digest()
        first['sim_now'] = sim.now
        first['ranks_all'] = [first.get('ranks')] + [l.get('ranks') for l in later]
    return first


def inspect_disk(root):
    """Supervisor's view of the simulated disk after a process ended (fresh handles)."""
    work = os.path.join(root, 'work')
    out = {'checkpoint': None, 'out_files': []}
    p = os.path.join(work, CKPT)
    if os.path.exists(p):
        with open(p, encoding='utf-8', newline='') as fh:
            out['checkpoint'] = fh.read()
    od = os.path.join(work, 'out')
    if os.path.isdir(od):
        out['out_files'] = sorted(os.listdir(od))
    return out


def judge_crash(res, disk):
    """C08 after a kill: outside a checkpoint write the on-disk checkpoint is the median aggregation
    of the processed batches (of all of them, or of all but the last when the kill landed between
    the end of a batch and its checkpoint)."""
    v = []
    val = res
    if val.get('status') != 'crashed':
        return v
    if val.get('ckpt_write_open'):
        return [{'property': None, 'class': 'torn_checkpoint_observed', 'detail': {}}]
    heur_constant = False
    exp = val.get('expected_checkpoint')
    prev = val.get('expected_checkpoint_prev')
    text = disk['checkpoint']
    if exp is None:
        return v
    if val.get('ckpt_closed_after_last_batch'):
        cands = [exp]
    else:
        cands = [prev] if prev is not None else [None]
    if text is None:
        # legal only if the kill came before the first checkpoint was written
        if cands == [None]:
            return v
        return [{'property': 'C08', 'class': 'checkpoint-missing-after-kill', 'detail': {'batches_done': val['batches_done'], 'crash': val.get('crash')}}]
    try:
        got = aggregate.parse_checkpoint(text)
    except ValueError as e:
        return [{'property': 'C08', 'class': 'checkpoint-unparsable-after-kill', 'detail': {'error': str(e), 'crash': val.get('crash'), 'head': text[:200]}}]
    for c in cands:
        if c is None:
            continue
        want = {(a, b): s for a, b, s in c}
        if set(want) == set(got) and all(aggregate.same_score(got[k], want[k]) for k in want):
            return v
    return [{'property': 'C08', 'class': 'checkpoint-stale-after-kill', 'detail': {'batches_done': val['batches_done'], 'crash': val.get('crash'),
                                                                               'closed_after_last_batch': val.get('ckpt_closed_after_last_batch'),
                                                                               'on_disk_pairs': len(got)}}]


@register('pipe.run')
def job_run(job):
    a = job['args']
    base = os.environ.get('SIM_BASE') or tempfile.gettempdir()
    root = tempfile.mkdtemp(prefix='run-', dir=base)
    try:
        os.makedirs(os.path.join(root, 'data'))
        with open(os.path.join(root, 'data', 'data.csv'), 'wb') as fh:
            fh.write(wlmod.render(a['workload']))
        if a['workload'].get('source') == 'ob-csv':
            with open(os.path.join(root, 'data', 'dataset_desc.json'), 'w') as fh:
                fh.write(wlmod.dataset_desc(a['workload']))
        for ri, more in enumerate(a.get('more_runs') or [], start=1):
            if more.get('workload'):
                more['data_dir'] = f'data{ri}'
                os.makedirs(os.path.join(root, more['data_dir']))
                with open(os.path.join(root, more['data_dir'], 'data.csv'), 'wb') as fh:
                    fh.write(wlmod.render(more['workload']))
                if more['workload'].get('source') == 'ob-csv':
                    with open(os.path.join(root, more['data_dir'], 'dataset_desc.json'), 'w') as fh:
                        fh.write(wlmod.dataset_desc(more['workload']))
        if a.get('dirty_files'):
            os.makedirs(os.path.join(root, 'work', 'out'), exist_ok=True)
            for rel, content in a['dirty_files'].items():
                with open(os.path.join(root, 'work', rel), 'w') as fh:
                    fh.write(content)
        phases = a.get('phases') or [{}]
        out = []
        for ph in phases:
            r = proc.run_in_fork(simulated_process, (a, ph, root), timeout=float(a.get('phase_timeout', 50)),
                                 stderr_path=a.get('stderr_path'))
            disk = inspect_disk(root)
            entry = {'proc': r, 'disk_files': disk['out_files'], 'checkpoint_present': disk['checkpoint'] is not None}
            if r['status'] == 'returned':
                entry['crash_verdict'] = judge_crash(r['value'], disk)
            out.append(entry)
        return {'phases': out}
    finally:
        shutil.rmtree(root, ignore_errors=True)
