"""Shared plumbing of the checks: CLI, tiers, evidence, known findings, replay files, exit codes.

Exit codes: 0 = property held on everything explored (KNOWN-FINDING lines allowed),
1 = VIOLATION (a line `VIOLATION property=<id> replay=<path>` is printed),
2 = HARNESS-ERROR (timeouts, stuck simulator, import problems) - never 0, never a VIOLATION line.
"""
from __future__ import annotations

import argparse
import hashlib
import json
import os
import subprocess
import sys
import time
import traceback

VERIF = os.path.dirname(os.path.dirname(os.path.abspath(__file__)))
if VERIF not in sys.path:
    sys.path.insert(0, VERIF)

from sim.orch import HarnessError, ZygotePool, repo_path  # noqa: E402

DEFAULT_SEED = 20261002


def ensure_setup():
    so = os.path.join(VERIF, 'build', 'libpoison.so')
    src = os.path.join(VERIF, 'sim', 'alloc', 'poison.c')
    if not os.path.exists(so) or os.path.getmtime(src) > os.path.getmtime(so):
        subprocess.run(['bash', os.path.join(VERIF, 'setup.sh')], check=True, stdout=subprocess.DEVNULL)
    os.makedirs(os.path.join(VERIF, 'evidence'), exist_ok=True)
    os.makedirs(os.path.join(VERIF, 'replays'), exist_ok=True)


def parse_args(argv=None):
    ap = argparse.ArgumentParser()
    ap.add_argument('prop')
    ap.add_argument('--tier', default=os.environ.get('VERIF_TIER', 'quick'), choices=['quick', 'thorough'])
    ap.add_argument('--seed', type=int, default=None)
    ap.add_argument('--replay', default=None)
    ap.add_argument('--budget', type=float, default=None, help='wall-clock budget in seconds (overrides the tier default)')
    ap.add_argument('--no-evidence', action='store_true')
    ap.add_argument('--keep-going', action='store_true', help='do not stop at the first violation (debugging)')
    a = ap.parse_args(argv)
    if a.seed is None:
        a.seed = int(os.environ.get('VERIF_SEED', DEFAULT_SEED))
    return a


def load_known():
    p = os.path.join(VERIF, 'known_findings.json')
    if not os.path.exists(p):
        return {'open': [], 'fixed': []}
    with open(p) as fh:
        return json.load(fh)


def repo_state():
    """Identify the tree the check ran against (for the evidence file)."""
    rp = repo_path()
    try:
        head = subprocess.run(['git', '-C', rp, 'rev-parse', '--short', 'HEAD'], capture_output=True, text=True).stdout.strip()
        dirty = subprocess.run(['git', '-C', rp, 'status', '--porcelain', '--untracked-files=no'], capture_output=True, text=True).stdout.strip()
    except OSError:
        head, dirty = '?', ''
    h = hashlib.sha256()
    for root, dirs, files in os.walk(os.path.join(rp, 'outrank')):
        dirs[:] = sorted(d for d in dirs if d != '__pycache__')
        for f in sorted(files):
            if f.endswith('.py'):
                with open(os.path.join(root, f), 'rb') as fh:
                    h.update(f.encode() + b'\0' + fh.read())
    return {'repo': rp, 'head': head, 'dirty': bool(dirty), 'outrank_src_sha256': h.hexdigest()[:16]}


class Report:
    def __init__(self, prop, args, engine):
        self.prop = prop
        self.args = args
        self.engine = engine
        self.t0 = time.time()
        self.violations = []        # dicts: cls, key, detail, replay
        self.known_hits = []
        self.known = load_known()
        self.evaluations = 0
        self.distinct = set()
        self.samples = []
        self.extra = {}
        self.fault_counts = {}
        self.probes = {}
        self.other_obs = {}
        self.sim_seconds = 0.0
        self.hashseeds = set()
        self.interleavings = set()
        self.rule = ''
        self.assumptions = []

    # ------------------------------------------------------------------ bookkeeping
    def add_counts(self, target, d):
        for k, v in (d or {}).items():
            target[k] = target.get(k, 0) + v

    def sample(self, s, cap=4):
        if len(self.samples) < cap:
            self.samples.append(s)

    def elapsed(self):
        return time.time() - self.t0

    # ------------------------------------------------------------------ violations
    def is_known(self, cls, key):
        for f in self.known.get('open', []):
            if f.get('property') == self.prop and f.get('class') == cls and f.get('key') == key:
                return f
        return None

    def violation(self, cls, key, detail, replay_obj):
        """Register a violation.  Returns True when it is a new (unknown) violation."""
        k = self.is_known(cls, key)
        if k is not None:
            if k not in self.known_hits:
                self.known_hits.append(k)
            return False
        name = f"{self.prop}-{self.engine}-{cls}-{hashlib.sha1(json.dumps(replay_obj, sort_keys=True, default=repr).encode()).hexdigest()[:10]}.json"
        path = os.path.join(VERIF, 'replays', name)
        replay_obj = dict(replay_obj)
        replay_obj.update({'property': self.prop, 'engine': self.engine, 'class': cls, 'key': key, 'detail': detail})
        with open(path, 'w') as fh:
            json.dump(replay_obj, fh, indent=1, default=repr)
        self.violations.append({'class': cls, 'key': key, 'detail': detail, 'replay': path})
        return True

    # ------------------------------------------------------------------ finish
    def finish(self, pool=None):
        wall = time.time() - self.t0
        for f in self.known_hits:
            print(f"KNOWN-FINDING: property={self.prop} {f.get('what', f.get('key'))}")
        for v in self.violations:
            print(f"VIOLATION property={self.prop} replay={v['replay']}")
            print(f"  class={v['class']} key={v['key']}")
            print('  detail=' + json.dumps(v['detail'], default=repr)[:1500])
        cov = {
            'evaluations': int(self.evaluations),
            'distinct_nontrivial': int(len(self.distinct)),
            'rule': self.rule,
            'samples': self.samples,
            'runs_per_hour': int(self.evaluations / wall * 3600) if wall > 0 else 0,
            'seeds': {'VERIF_SEED': self.args.seed},
            'simulated_seconds': round(self.sim_seconds, 3),
            'fault_counts': dict(sorted(self.fault_counts.items())),
            'probes': dict(sorted(self.probes.items())),
            'interleavings': len(self.interleavings),
            'hashseeds': sorted(self.hashseeds),
            'other_property_observations': self.other_obs,
            'tree': repo_state(),
        }
        cov.update(self.extra)
        ev = {
            'property_id': self.prop,
            'tier': self.args.tier,
            'seed': int(self.args.seed),
            'level': 'exploration',
            'coverage': cov,
            'assumptions': self.assumptions,
            'wall_s': round(wall, 2),
            'violations': len(self.violations),
        }
        if not self.args.no_evidence and not self.args.replay:
            p = os.path.join(VERIF, 'evidence', f'{self.prop}.json')
            tmp = p + '.tmp'
            with open(tmp, 'w') as fh:
                json.dump(ev, fh, indent=1, default=repr)
            os.replace(tmp, p)
        print(f"{self.prop} tier={self.args.tier} seed={self.args.seed} evaluations={self.evaluations} "
              f"distinct_nontrivial={len(self.distinct)} violations={len(self.violations)} "
              f"known={len(self.known_hits)} wall={wall:.1f}s")
        return 1 if self.violations else 0


def main_wrapper(fn):
    """Run fn(args) -> exit code with the HARNESS-ERROR contract."""
    try:
        import signal
        # a terminated check still removes its tmpfs directory and stops its zygotes (atexit handlers run on SystemExit)
        signal.signal(signal.SIGTERM, lambda *_: sys.exit(143))
        if os.environ.get('VERIF_FAULT_DUMP'):          # diagnosis aid: periodic stack dumps of the orchestrator
            import faulthandler
            faulthandler.dump_traceback_later(float(os.environ['VERIF_FAULT_DUMP']), repeat=True)
        args = parse_args()
        ensure_setup()
        code = fn(args)
    except HarnessError as e:
        print(f'HARNESS-ERROR {e}')
        code = 2
    except SystemExit:
        raise
    except BaseException:  # noqa: BLE001
        print('HARNESS-ERROR ' + traceback.format_exc()[-3000:])
        code = 2
    sys.stdout.flush()
    os._exit(code) if False else sys.exit(code)
