"""Zygote: a python process with a fixed PYTHONHASHSEED that imports /repo's outrank once and
then forks one child per simulated process (job).  Protocol: JSON lines on stdin/stdout."""
from __future__ import annotations

import hashlib
import json
import os
import sys


def _prepare_env():
    repo = os.environ.get('VERIF_REPO', '/repo')
    for k in ('OMP_NUM_THREADS', 'OPENBLAS_NUM_THREADS', 'MKL_NUM_THREADS', 'NUMBA_NUM_THREADS',
              'NUMEXPR_NUM_THREADS'):
        os.environ[k] = '1'
    # numba cache outside /repo, keyed by the kernel sources so a changed kernel never meets a stale cache
    h = hashlib.sha256()
    for root, _, files in sorted(os.walk(os.path.join(repo, 'outrank', 'algorithms'))):
        for f in sorted(files):
            if f.endswith('.py'):
                with open(os.path.join(root, f), 'rb') as fh:
                    h.update(f.encode() + b'\0' + fh.read())
    base = os.environ.get('VERIF_BUILD') or os.path.join(os.path.dirname(os.path.dirname(os.path.abspath(__file__))), 'build')
    cache = os.path.join(base, 'numba-' + h.hexdigest()[:16])
    os.makedirs(cache, exist_ok=True)
    os.environ['NUMBA_CACHE_DIR'] = cache
    os.environ.setdefault('MPLCONFIGDIR', os.path.join(base, 'mpl'))
    sys.path.insert(0, repo)
    here = os.path.dirname(os.path.dirname(os.path.abspath(__file__)))
    if here not in sys.path:
        sys.path.insert(1, here)
    sys.dont_write_bytecode = True
    return repo


def main():
    """argv[1] = comma separated 'rfd:wfd' pairs (one per server process).  The first process imports
    outrank once and forks the other servers, so one import serves all zygotes of a hash seed."""
    repo = _prepare_env()
    import logging
    logging.disable(logging.CRITICAL)
    import warnings
    warnings.filterwarnings('ignore')
    pairs = [tuple(int(x) for x in p.split(':')) for p in sys.argv[1].split(',')]
    os.dup2(2, 1)     # anything printed by imports goes to stderr
    import resource
    resource.setrlimit(resource.RLIMIT_CORE, (0, 0))
    err = None
    try:
        import outrank
        real = os.path.realpath(os.path.dirname(outrank.__file__))
        if not real.startswith(os.path.realpath(repo) + os.sep):
            err = f'outrank imported from {real}, expected under {repo}'
        from sim import proc
        from sim.engines import REGISTRY
    except BaseException:  # noqa: BLE001
        import traceback
        err = traceback.format_exc()[-3000:]
    if err:
        for r, w in pairs:
            os.write(w, (json.dumps({'ready': False, 'error': err}) + '\n').encode())
        return 3
    me = 0
    kids = []
    import random as _random
    _rstate = _random.getstate()          # fork re-seeds `random` in the child; servers must keep the post-import state
    for i in range(1, len(pairs)):
        pid = os.fork()
        if pid == 0:
            _random.setstate(_rstate)
            me = i
            kids = []
            break
        kids.append(pid)
    for i, (r, w) in enumerate(pairs):
        if i != me:
            os.close(r)
            os.close(w)
    rfd, wfd = pairs[me]
    jobs = os.fdopen(rfd, 'r')
    proto = os.fdopen(wfd, 'w', buffering=1)
    proto.write(json.dumps({'ready': True, 'outrank': real, 'hashseed': os.environ.get('PYTHONHASHSEED'),
                            'pid': os.getpid(), 'engines': sorted(REGISTRY)}) + '\n')
    for line in jobs:
        line = line.strip()
        if not line:
            continue
        job = json.loads(line)
        if job.get('op') == 'quit':
            break
        fn = REGISTRY.get(job['fn'])
        if fn is None:
            res = {'status': 'harness_error', 'error': f"unknown job fn {job['fn']}"}
        else:
            res = proc.run_in_fork(fn, (job,), timeout=float(job.get('timeout', 60)),
                                   stderr_path=job.get('stderr_path'))
        res['id'] = job.get('id')
        proto.write(json.dumps(res) + '\n')
    for k in kids:
        try:
            os.waitpid(k, 0)
        except ChildProcessError:
            pass
    return 0


if __name__ == '__main__':
    sys.exit(main())
