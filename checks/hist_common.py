"""Common machinery of the `hist` checks (C07, C13, C14, C15): seeded history generation, dispatch,
judging, minimisation (ddmin-style candidates supplied by the check), replay."""
from __future__ import annotations

import json
import random
import time

from checks import common


def last_repo_frame(trace):
    lines = trace.strip().splitlines()
    files = [l for l in lines if l.strip().startswith('File "')]
    return files[-1] if files else ''


def judge_result(r, judge_value):
    """r = run_in_fork result of one history.  -> ('violation', cls, key, detail) | ('harness', msg) | None"""
    st = r.get('status')
    if st == 'returned':
        return judge_value(r['value'])
    if st == 'died':
        return ('violation', 'process-died', f"signal {r['signal']}", {'signal': r['signal']})
    if st == 'exception':
        tr = r.get('trace', '')
        lf = last_repo_frame(tr)
        if '/outrank/' in lf or 'numba' in lf or 'site-packages' in lf:
            last = tr.strip().splitlines()[-1]
            return ('violation', 'exception', last[:160], {'trace': tr[-1000:]})
        return ('harness', 'exception in harness: ' + tr[-800:])
    if st == 'timeout':
        return ('harness', 'history exceeded its wall limit')
    return ('harness', f'history ended abnormally: {r}')


def run_histories(pool, fn, histories, per_job=8, hashseeds=None, rng=None):
    jobs = []
    for i in range(0, len(histories), per_job):
        chunk = histories[i:i + per_job]
        hs = chunk[0].get('hashseed') if hashseeds is None else None
        jobs.append({'fn': fn, 'timeout': 60 + sum(float(h.get('timeout', 0)) for h in chunk), 'args': {'histories': chunk}, 'hashseed': hs})
    res = pool.run(jobs)
    out = []
    for j, r in zip(jobs, res):
        if r['status'] != 'returned':
            raise common.HarnessError(f"hist job did not return: {r.get('status')} {str(r.get('trace', ''))[-600:]}")
        for h in r['value']['histories']:
            h['hashseed'] = r.get('hashseed')
            out.append(h)
    return out


def default_problem_judge(value):
    if value.get('problems'):
        p = value['problems'][0]
        cls = p.get('kind') or p.get('problem') or 'problem'
        import re
        cls = re.sub(r'\d+', 'N', str(cls).split(' (')[0])[:60].replace(' ', '-').replace(',', '')
        return ('violation', cls, cls, p)
    return None


def shrink(pool, fn, history, cls, candidates, judge_value, wall=40.0, rounds=40, size=None):
    size = size or (lambda h: len(json.dumps(h, default=repr)))
    cur = history
    t0 = time.time()
    for _ in range(rounds):
        if time.time() - t0 > wall:
            break
        cands = [c for c in candidates(cur) if c != cur][:128]
        if not cands:
            break
        res = run_histories(pool, fn, cands, per_job=4)
        better = []
        for c, r in zip(cands, res):
            j = judge_result(r, judge_value)
            if j and j[0] == 'violation' and j[1] == cls:
                better.append(c)
        if not better:
            break
        better.sort(key=size)
        if size(better[0]) >= size(cur):
            break
        cur = better[0]
    return cur


def ddmin_list(lst):
    """candidate sub-lists (drop one block)"""
    n = len(lst)
    out = []
    if n <= 1:
        return out
    for parts in (2, 4, 8):
        size = max(1, n // parts)
        for s in range(0, n, size):
            out.append(lst[:s] + lst[s + size:])
    if n <= 12:
        for i in range(n):
            out.append(lst[:i] + lst[i + 1:])
    return [x for x in out if x]


def run_check(prop, args, fn, gen, rule, signature, nontrivial, candidates, engine='hist', judge_value=default_problem_judge,
              per_round=128, per_job=8, budget_quick=50, budget_thorough=900, hashseeds_quick=(0, 1, 2, 3), hashseeds_thorough=(0, 1, 2, 3, 4, 5, 6, 7),
              record=None, after_round=None, assumptions=None, sample_of=None, real_components=None, stub_components=None, rep=None, pool=None, finish=True):
    own_rep = rep is None
    rep = rep or common.Report(prop, args, engine)
    if own_rep:
        rep.rule = rule
        rep.assumptions = assumptions or []
    if args.replay and own_rep:
        return replay(prop, args, fn, judge_value)
    budget = args.budget or (budget_quick if args.tier == 'quick' else budget_thorough)
    hs = list(hashseeds_quick if args.tier == 'quick' else hashseeds_thorough)
    own_pool = pool is None
    pool = pool or common.ZygotePool(hashseeds=hs)
    rep.hashseeds.update(pool.hashseeds)
    rng = random.Random(f'{prop}/{fn}/{args.seed}')
    t_start = time.time()
    stop = False
    rounds = 0
    while (rounds == 0 or time.time() - t_start < budget) and not stop:
        rounds += 1
        hists = [gen(rng, args.tier) for _ in range(per_round)]
        for h in hists:
            h.setdefault('hashseed', rng.choice(pool.hashseeds))
            # swarm-selected buggify: poison allocator and a wall clock that moves between operations
            k = rng.random()
            if k < 0.15:
                h.setdefault('poison', {'mode': 0, 'word': rng.choice([0, 0xFFFFFFFFFFFFFFFF, 0xCDCDCDCDCDCDCDCD, 0x3FF0000000000000])})
            elif k < 0.25:
                h.setdefault('poison', {'mode': 1, 'seed': rng.randrange(1, 2 ** 63)})
            if rng.random() < 0.2:
                h.setdefault('ticks', [rng.choice([0.0, 0.5, 6.0, 61.0, 3600.0, 86400.0]) for _ in range(rng.randrange(1, 5))])
            if h.get('poison'):
                rep.add_counts(rep.fault_counts, {'poison:' + ('stream' if h['poison'].get('mode') else 'word'): 1})
            if h.get('ticks'):
                rep.add_counts(rep.fault_counts, {'clock_ticks_between_operations': 1})
        # group by hash seed so that each job is served by a zygote of that seed
        hists.sort(key=lambda h: h['hashseed'])
        results = []
        by = {}
        for h in hists:
            by.setdefault(h['hashseed'], []).append(h)
        ordered = []
        jobs = []
        for hseed, lst in by.items():
            for i in range(0, len(lst), per_job):
                chunk = lst[i:i + per_job]
                ordered += chunk
                jobs.append({'fn': fn, 'timeout': 60 + sum(float(h.get('timeout', 0)) for h in chunk), 'args': {'histories': chunk}, 'hashseed': hseed})
        res = pool.run(jobs)
        flat = []
        for r in res:
            if r['status'] != 'returned':
                raise common.HarnessError(f"hist job did not return: {r.get('status')} {str(r.get('trace', ''))[-600:]}")
            flat += r['value']['histories']
        for h, r in zip(ordered, flat):
            rep.evaluations += 1
            j = judge_result(r, judge_value)
            if r.get('status') == 'returned':
                v = r['value']
                if record:
                    record(rep, h, v)
                if nontrivial(h, v):
                    rep.distinct.add(signature(h, v))
            rep.sample(sample_of(h) if sample_of else h)
            if j is None:
                continue
            if j[0] == 'harness':
                raise common.HarnessError(j[1])
            _, cls, key, detail = j
            if stop:
                continue
            small = shrink(pool, fn, h, cls, candidates, judge_value)
            rr = run_histories(pool, fn, [small], per_job=1)[0]
            jj = judge_result(rr, judge_value)
            if jj and jj[0] == 'violation' and jj[1] == cls:
                key, detail = jj[2], jj[3]
            else:
                small = h
            new = rep.violation(cls, key, {'observed': detail, 'history': sample_of(small) if sample_of else small},
                                {'fn': fn, 'history': small, 'seed': args.seed})
            if new and not args.keep_going:
                stop = True
        if after_round and not stop:
            stop = bool(after_round(pool, rep, rng, ordered, flat)) and not args.keep_going
    rep.extra.setdefault('rounds', 0)
    rep.extra['rounds'] += rounds
    if real_components:
        rep.extra.setdefault('real_components', [])
        rep.extra['real_components'] += [c for c in real_components if c not in rep.extra['real_components']]
    if stub_components is not None:
        rep.extra.setdefault('stub_components', [])
        rep.extra['stub_components'] += [c for c in stub_components if c not in rep.extra['stub_components']]
    if not finish:
        return stop
    code = rep.finish()
    if own_pool:
        pool.close()
    return code


def replay(prop, args, fn_default, judge_value):
    with open(args.replay) as fh:
        obj = json.load(fh)
    h = obj['history']
    pool = common.ZygotePool(hashseeds=[h.get('hashseed', 0)], width=1)
    r = run_histories(pool, obj.get('fn', fn_default), [h], per_job=1)[0]
    pool.close()
    j = judge_result(r, judge_value)
    if j and j[0] == 'violation' and j[1] == obj['class']:
        print(f"REPRODUCED class={j[1]} detail={json.dumps(j[3], default=repr)[:600]}")
        print(f'VIOLATION property={prop} replay={args.replay}')
        return 1
    print(f"NOT-REPRODUCED expected class={obj['class']} got={j}")
    return 0
