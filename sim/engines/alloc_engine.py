"""Engine `alloc`: the real numba estimator under a simulated allocator (C04)."""
from __future__ import annotations

import math
import random
import struct

import numpy as np
from numba import njit

from outrank.algorithms.feature_ranking import ranking_mi_numba
from outrank.algorithms import importance_estimator

from sim.alloc import alloc
from sim.engines import register
from sim.refmodel import subsample


@njit('void(int64, float64)')
def _churn_one(size, value):
    a = np.empty(size)          # float64 buffer, same element type as the sampler's index buffer
    for i in range(size):
        a[i] = value
    b = np.empty(size // 2 + 1, dtype=np.int32)
    for i in range(size // 2 + 1):
        b[i] = np.int32(value)


def churn(seed, n):
    """Seeded allocator history: allocate / fill / free numba arrays around the size of the index buffer."""
    rng = random.Random(seed)
    k = rng.randrange(0, 6)
    for _ in range(k):
        size = max(1, int(n * rng.choice([0.1, 0.3, 0.5, 0.53, 0.8, 1.0, 1.5])) + rng.randrange(-2, 3))
        value = rng.choice([0.0, 1.0, float(n - 1), float(n), float(n + 7), 1e9, -1.0, float(rng.randrange(0, max(1, n)))])
        _churn_one(size, value)
    return k


def bits(x):
    return struct.unpack('<I', struct.pack('<f', float(x)))[0]


def call(Y, X, r, corr):
    return ranking_mi_numba.mutual_info_estimator_numba(Y, X, np.float32(r), bool(corr))


def run_case(case, churn_seed, reps):
    Y = np.array(case['Y'], dtype=np.int32)
    X = np.array(case['X'], dtype=np.int32)
    r = case['r']
    corr = case['corr']
    n = len(X)
    out = {'bits': [], 'finite': True}
    for k in range(reps):
        if churn_seed is not None:
            churn(churn_seed * 1000003 + k, n)
        s = call(Y, X, r, corr)
        out['bits'].append(bits(s))
        if not math.isfinite(float(s)):
            out['finite'] = False
    out['score'] = float(s) if math.isfinite(float(s)) else repr(float(s))
    # sample-only: alterations outside the sampled rows
    alt = case.get('alter')
    if alt:
        Y2 = Y.copy()
        for i, v in alt:
            Y2[i] = v
        if not (np.array_equal(Y, X) or np.array_equal(Y2, X)):
            out['alt_bits'] = bits(call(Y2, X, r, corr))
    if case.get('want_full'):
        out['full_bits'] = bits(call(Y, X, 1.0, corr))
    # the same question asked through the pipeline's plumbing (heuristic name -> correction flag, ratio forwarded):
    # one process serves cases with different ratios, as a long-lived interpreter or a pool worker may
    try:
        name = 'MI-numba-randomized' if corr else 'MI-numba-3mr'
        out['mi_bits'] = bits(importance_estimator.numba_mi(Y.reshape(-1, 1), X, name, r))
    except TypeError as e:
        if e.__traceback__.tb_next is None:
            out['mi_unavailable'] = str(e)
        else:
            raise
    return out


@register('alloc.cases')
def job_cases(job):
    a = job['args']
    # garbage-driven giant allocations must fail fast instead of thrashing the machine
    import resource
    resource.setrlimit(resource.RLIMIT_AS, (int(a.get('as_limit_gb', 6)) << 30,) * 2)
    installed = alloc.install(a.get('poison'))
    res = []
    for ci, case in enumerate(a['cases']):
        cs = None if a.get('churn_seed') is None else a['churn_seed'] + ci
        res.append(run_case(case, cs, a.get('reps', 3)))
    st = alloc.stats() if installed else {}
    return {'cases': res, 'alloc': st}
