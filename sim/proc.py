"""Simulated processes: run a function in a forked child and collect its JSON result.

A forked child of a process that has done nothing except import outrank is indistinguishable
from a freshly started interpreter with the same hash seed (module-level RNG seeding, GLOBAL_*
storages, compiled kernels), costs ~20 ms, and dies with everything the run left in module
state.  A child that is killed by a signal (SIGSEGV ...) or exceeds its wall limit is reported
as such; it never yields an 'ok'.
"""
from __future__ import annotations

import json
import os
import select
import signal
import sys
import time
import traceback


_EMIT_FD = None


def die(value):
    """End the current simulated process NOW (no unwinding, no flushing of user-space buffers):
    report `value` as its result and _exit.  Only valid inside run_in_fork's child."""
    data = json.dumps({'status': 'returned', 'value': value}, default=_json_default).encode()
    off = 0
    while off < len(data):
        off += os.write(_EMIT_FD, data[off:off + 65536])
    os._exit(0)


def run_in_fork(fn, args=(), timeout=60.0, quiet=True, stderr_path=None):
    """Run fn(*args) in a forked child.  Returns dict:
    {'status': 'returned', 'value': <json value>} | {'status': 'died', 'signal': n} |
    {'status': 'exit', 'code': n} | {'status': 'timeout'} | {'status': 'exception', 'trace': str}
    """
    r, w = os.pipe()
    sys.stdout.flush()
    sys.stderr.flush()
    # CPython re-seeds the global `random` instance from OS entropy in every forked child
    # (os.register_at_fork in random.py).  A simulated process must instead look like a fresh interpreter
    # after import (outrank seeds `random` at import time), so the parent's state is restored in the child.
    import random as _random
    _rstate = _random.getstate()
    pid = os.fork()
    if pid == 0:
        code = 0
        try:
            _random.setstate(_rstate)
            os.close(r)
            global _EMIT_FD
            _EMIT_FD = w
            dn = os.open(os.devnull, os.O_RDWR)
            os.dup2(dn, 0)
            if quiet:
                os.dup2(dn, 1)
                if stderr_path:
                    fd = os.open(stderr_path, os.O_WRONLY | os.O_CREAT | os.O_APPEND, 0o644)
                    os.dup2(fd, 2)
                else:
                    os.dup2(dn, 2)
            try:
                value = fn(*args)
                payload = {'status': 'returned', 'value': value}
            except BaseException:  # noqa: BLE001 - report everything, including SystemExit
                payload = {'status': 'exception', 'trace': traceback.format_exc()[-6000:]}
            data = json.dumps(payload, default=_json_default).encode()
            off = 0
            while off < len(data):
                off += os.write(w, data[off:off + 65536])
            os.close(w)
        except BaseException:  # noqa: BLE001
            code = 97
        finally:
            os._exit(code)
    os.close(w)
    chunks = []
    deadline = time.monotonic() + timeout
    timed_out = False
    while True:
        left = deadline - time.monotonic()
        if left <= 0:
            timed_out = True
            break
        rl, _, _ = select.select([r], [], [], min(left, 1.0))
        if rl:
            b = os.read(r, 1 << 20)
            if not b:
                break
            chunks.append(b)
    os.close(r)
    if timed_out:
        try:
            os.kill(pid, signal.SIGKILL)
        except ProcessLookupError:
            pass
        os.waitpid(pid, 0)
        return {'status': 'timeout'}
    _, st = os.waitpid(pid, 0)
    if os.WIFSIGNALED(st):
        return {'status': 'died', 'signal': os.WTERMSIG(st)}
    data = b''.join(chunks)
    if not data:
        return {'status': 'exit', 'code': os.WEXITSTATUS(st)}
    try:
        return json.loads(data)
    except ValueError:
        return {'status': 'exit', 'code': os.WEXITSTATUS(st), 'garbled': True}


def _json_default(o):
    try:
        import numpy as np
        if isinstance(o, np.integer):
            return int(o)
        if isinstance(o, np.floating):
            return float(o)
        if isinstance(o, np.ndarray):
            return o.tolist()
        if isinstance(o, np.bool_):
            return bool(o)
    except Exception:  # noqa: BLE001
        pass
    if isinstance(o, (set, frozenset)):
        return sorted(o, key=repr)
    if isinstance(o, bytes):
        return o.decode('latin1')
    return repr(o)
