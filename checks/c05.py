"""C05 - each emitted score is the selected heuristic applied to the two columns (engine `pipe`).

The score reaches the caller only through the worker pool; the simulator chooses pool size, chunk ->
worker assignment, service times, stalls and completion order, and the monitor compares every triplet
that comes back with a reference scorer evaluated on the category codes of the frame that entered
the rank graph."""
from __future__ import annotations

from checks import common, pipe_common

STATEMENT_HEURISTICS = ['MI', 'MI-numba-3mr', 'MI-numba-randomized', 'max-value-coverage', 'correlation-Pearson', 'AMI', 'Constant']


def profile():
    doc = pipe_common.documented_heuristics()
    heur = sorted(set(STATEMENT_HEURISTICS) | set(doc))
    # numba heuristics are cheap: sample them more often
    weighted = heur + ['MI-numba-randomized', 'MI-numba-3mr', 'max-value-coverage'] * 2
    return {
        'oracles': ['C05'],
        'heuristics': weighted,
        'minibatch': [4, 7, 12, 25, 60, 120],
        'batches': [1, 1, 1, 2],
        'delta': [0, 0, 1],
        'ncols': [2, 3, 3, 4, 5, 6],
        'target_only': ['True', 'False', 'False'],
        'malformed': [0.0],
        'subsampling': [1, 1, 2],
        'poison': 0.3,
        'more_runs': 0.15,
        'ref_json': 0.12,
        'cli_extra': {'interaction_order': lambda rng, wl: 2 if len(wl['header']) <= 5 and rng.random() < 0.08 else None},
    }, doc


RULE = ('spec = batch(es) of string columns (low/mid cardinality, id-like, constant, sparse with empty strings, numeric-looking, duplicated, balanced binary, '
        'label-correlated; latin-1 text with quotes/commas) x heuristic in {names found in README/docs/examples/scripts/benchmarks/selftest} U {names in the statement} '
        'x target-only/pairwise x pool size in {1,2,3,4,8,16} x seeded schedule (assignment, service-time regime, stalls) x hash seed x optional poison allocator. '
        'Every triplet is compared with sim/refmodel/heuristics.py.  distinct_nontrivial = distinct (heuristic, mode, pool-size class, #columns, rows class) among '
        'runs in which at least two chunks completed out of submission order.')


def signature(spec, v):
    cli = spec['cli']
    n = len(spec['workload']['lines'])
    return (cli['heuristic'], cli['target_ranking_only'], min(cli['num_threads'], 4), len(spec['workload']['header']), 'n<10' if n < 10 else 'n<50' if n < 50 else 'n>=50')


def nontrivial(spec, v):
    return v.get('reordered_amaps', 0) > 0


def run(args):
    prof, doc = profile()
    if args.tier == 'thorough':
        # a few large single batches (tens of thousands of rows, skewed joint values): thresholds far from the small-data boundaries
        prof = dict(prof, minibatch=prof['minibatch'] + [70000])
    return pipe_common.run_check('C05', args, prof, RULE, signature, nontrivial, batch=96,
                                 extra_evidence=lambda rep: {'documented_heuristics_found': doc},
                                 assumptions=['the input dimension of the quantifier is sampled by the workload generator, not enumerated',
                                              'reference scorers: sim/refmodel/heuristics.py, tolerance 1e-4*(1+|ref|)'])


if __name__ == '__main__':
    common.main_wrapper(run)
