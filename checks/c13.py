"""C13 - data-quality statistics are exact and independent of the batch split (engines `hist` + `pipe`).
No fault dimension (DESIGN 4/C13): the 'schedule' is the batch composition and the process-global
state carried from batch to batch."""
from __future__ import annotations

import copy
import json

from checks import common, hist_common, pipe_common

VALS = ['a', 'b', 'c', 'd', 'aa', 'x1', '0', '1', '', '{}', 'NA', 'é', 'a b', 'q,r', ' ', ' NA', 'NA ']


def compose(rng, n):
    cuts = []
    left = n
    while left > 0:
        k = rng.choice([1, 1, 2, 3, rng.randrange(1, left + 1)])
        k = min(k, left)
        cuts.append(k)
        left -= k
    return cuts


def gen(rng, tier):
    ncols = rng.choice([1, 2, 2, 3, 4])
    header = [f'f{j}' for j in range(ncols)]
    n = rng.choice([1, 2, 3, 4, 6, 10, 25, rng.randrange(1, 61)])
    pools = []
    for j in range(ncols):
        k = rng.choice([1, 2, 3, 5, 8])
        pools.append([rng.choice(VALS) for _ in range(k)])
    if ncols > 1 and rng.random() < 0.5:
        pools[1] = list(pools[0])          # the same values in different columns
    rows = [[rng.choice(pools[j]) for j in range(ncols)] for _ in range(n)]
    return {'header': header, 'rows': rows, 'cuts': compose(rng, n), 'threshold': rng.choice([1, 1, 2, 3, 5]),
            'bound': rng.choice([2, 3, 5, 30000, 30000]), 'missing_value_symbols': rng.choice([',{}', ',{}', 'NA,{}', 'NA', '', ' ,{}', ' NA,{}', 'NA ,{}'])}


def candidates(h):
    out = []
    n = len(h['rows'])
    # fewer rows (recompute cuts so that they still sum up)
    def fit(cuts, n):
        res, left = [], n
        for c in cuts:
            if left <= 0:
                break
            res.append(min(c, left))
            left -= res[-1]
        if left > 0:
            res.append(left)
        return res
    for sub in hist_common.ddmin_list(h['rows']):
        out.append(dict(h, rows=sub, cuts=fit(h['cuts'], len(sub))))
    # fewer columns
    if len(h['header']) > 1:
        for j in range(len(h['header'])):
            out.append(dict(h, header=h['header'][:j] + h['header'][j + 1:], rows=[r[:j] + r[j + 1:] for r in h['rows']]))
    # coarser compositions: merge adjacent batches
    for i in range(len(h['cuts']) - 1):
        c = list(h['cuts'])
        c[i:i + 2] = [c[i] + c[i + 1]]
        out.append(dict(h, cuts=c))
    if h['threshold'] > 1:
        out.append(dict(h, threshold=1))
    if h['bound'] != 30000:
        out.append(dict(h, bound=30000))
    if h['missing_value_symbols'] != ',{}':
        out.append(dict(h, missing_value_symbols=',{}'))
    return out


def signature(h, v):
    return (len(h['cuts']) if len(h['cuts']) < 6 else '6+', h['threshold'], h['bound'] if h['bound'] < 100 else 'default', len(h['header']), v.get('crossing_batches', 0) > 0, h['missing_value_symbols'])


def nontrivial(h, v):
    return v.get('batches', 0) >= 2


def record(rep, h, v):
    if v.get('unavailable'):
        rep.add_counts(rep.probes, {'hist_driver_unavailable(signature changed; pipeline part still runs)': 1})
        return
    rep.add_counts(rep.probes, {'hist_batches': v.get('batches', 0), 'hist_value_crossing_threshold_in_nonfinal_batch': 1 if v.get('crossing_batches') else 0,
                                'hist_small_counter_bound': 1 if h['bound'] < 100 else 0, 'hist_nothing_rare': 1 if v.get('final') and not v['final'].get('rare') else 0,
                                'hist_crash_after_complete_report(outside statement)': 1 if (v.get('final') or {}).get('crash_after_report') else 0})


def after_round(pool, rep, rng, hists, results):
    """All compositions of one row sequence give identical cardinalities, histograms and rare-value sets."""
    base = [(h, r) for h, r in zip(hists, results) if r.get('status') == 'returned' and not r['value'].get('problems') and not r['value'].get('unavailable') and len(h['rows']) >= 2][:24]
    variants, owner = [], []
    for bi, (h, r) in enumerate(base):
        for _ in range(3):
            variants.append(dict(h, cuts=compose(rng, len(h['rows'])), write_report=False))
            owner.append(bi)
        variants.append(dict(h, cuts=[len(h['rows'])], write_report=False))
        owner.append(bi)
    if not variants:
        return False
    res = hist_common.run_histories(pool, 'hist.stats', variants, per_job=8)
    for hv, rv, bi in zip(variants, res, owner):
        rep.evaluations += 1
        h0, r0 = base[bi]
        if rv.get('status') != 'returned':
            raise common.HarnessError(f'variant history did not return: {rv}')
        if rv['value'].get('problems') or rv['value'].get('unavailable'):
            continue       # reported through the per-history oracle in a later round
        f0, f1 = r0['value']['final'], rv['value']['final']
        rep.add_counts(rep.probes, {'split_pairs_compared': 1})
        for k in ('cardinality', 'histogram', 'rare'):
            same = f0.get(k) == f1.get(k)
            if not same and k == 'histogram' and h0['bound'] < 100:
                continue       # a reached counter bound legitimately makes the histogram order-of-arrival dependent only within one sequence; splits share the sequence, so it must still agree
            if not same:
                return rep.violation('split-dependent-' + k, 'split-dependent-' + k,
                                     {'cuts_a': h0['cuts'], 'cuts_b': hv['cuts'], 'a': f0.get(k), 'b': f1.get(k), 'history': {kk: h0[kk] for kk in ('header', 'rows', 'threshold', 'bound', 'missing_value_symbols')}},
                                     {'fn': 'hist.stats', 'history': hv, 'other': h0, 'seed': rep.args.seed})
    return False


def rare_thr(rng, wl):
    return rng.choice([1, 1, 2, 3])


def _pipe_post(rng, spec):
    wl, cli = spec['workload'], spec['cli']
    if 'numeric' in wl.get('kinds', []) and rng.random() < 0.4:
        # a typed source: column names / float types come from dataset_desc.json
        wl['source'] = 'ob-csv'
        wl['float_cols'] = [h for h, k in zip(wl['header'], wl['kinds']) if k == 'numeric' and h != wl['label']]
    if 'multi' in wl.get('kinds', []) and rng.random() < 0.5:
        cli['explode_multivalue_features'] = wl['header'][wl['kinds'].index('multi')]


PIPE_PROFILE = {
    'oracles': ['C13'],
    'post': _pipe_post,
    'heuristics': ['MI-numba-randomized'],
    'minibatch': [2, 3, 5, 8, 20],
    'batches': [1, 2, 3, 5],
    'delta': [0, 0, 1],
    'ncols': [2, 3, 4, 5],
    'malformed': [0.0, 0.1],
    'card_names': ['True'],
    'task': ['ranking', 'ranking', 'identify_rare_values'],
    'more_runs': 0.25,
    'cli_extra': {'rare_value_count_upper_bound': rare_thr,
                  'max_unique_hist_constraint': lambda rng, wl: rng.choice([None, None, None, 2, 5]),
                  'missing_value_symbols': lambda rng, wl: rng.choice([None, None, 'NA,{}', ' ,{}', ' NA,{}'])},
}

RULE = ('hist: history = a row sequence (1-4 columns, 1-60 rows, small value pools incl. empty string / {} / NA / the same values in several columns) cut into an arbitrary composition of batches, '
        'thresholds 1-5, counter bounds {2,3,5,default}, missing-symbol sets; the real compute_coverage / compute_cardinalities / compute_value_counts run batch by batch in a forked process and are '
        'compared after every batch with exact recomputation; the real summarize_rare_counts writes the report; 24 sequences per round are re-run under 4 other compositions (incl. one single batch) and '
        'the final cardinalities / histograms / rare-value sets are compared.  pipe: ranking and identify_rare_values tasks; per batch the same running checks, at the end the (cardinality; coverage) '
        'annotations, value_repetitions.json and rare_values.tsv vs exact recomputation.  distinct_nontrivial = distinct (composition length, threshold, bound class, #columns, value crossing the threshold '
        'in a non-final batch, missing-symbol set) with >= 2 batches, plus distinct pipe run shapes.')


def pipe_signature(spec, v):
    cli = spec['cli']
    return ('pipe', cli.get('task', 'ranking'), min(v.get('batches', 0), 5), len(spec['workload']['header']), cli.get('rare_value_count_upper_bound'), cli.get('max_unique_hist_constraint'))


def pipe_nontrivial(spec, v):
    return v.get('batches', 0) >= 2


def run(args):
    if args.replay:
        with open(args.replay) as fh:
            obj = json.load(fh)
        if 'history' in obj:
            if obj['class'].startswith('split-dependent'):
                return replay_split(args, obj)
            return hist_common.replay('C13', args, 'hist.stats', hist_common.default_problem_judge)
        rep = common.Report('C13', args, 'pipe')
        return pipe_common.replay('C13', args, rep)
    rep = common.Report('C13', args, 'hist+pipe')
    rep.rule = RULE
    rep.assumptions = ['no fault dimension (DESIGN 4/C13)', 'exact models: sim/refmodel/stats.py', 'cardinality deficits explained by a collision of the repo\'s 32-bit value hash are tolerated and counted']
    total = args.budget or (55 if args.tier == 'quick' else 900)
    hs = [0, 1, 2, 3] if args.tier == 'quick' else [0, 1, 2, 3, 4, 5, 6, 7]
    pool = common.ZygotePool(hashseeds=hs)
    args_h = copy.copy(args)
    args_h.budget = total * 0.5
    stop = hist_common.run_check('C13', args_h, 'hist.stats', gen, RULE, signature, nontrivial, candidates, per_round=192, per_job=12, record=record, after_round=after_round,
                                 real_components=['outrank.core_ranking.compute_coverage / compute_cardinalities / compute_value_counts + GLOBAL_* storages, outrank.core_utils.summarize_rare_counts (real, forked process per history)'],
                                 stub_components=[], rep=rep, pool=pool, finish=False)
    if not stop:
        pipe_common.run_check('C13', args, PIPE_PROFILE, RULE, pipe_signature, pipe_nontrivial, rep=rep, pool=pool, finish=False, budget=total * 0.5, crash_mode=True)
    code = rep.finish()
    pool.close()
    return code


def replay_split(args, obj):
    pool = common.ZygotePool(hashseeds=[0], width=2)
    res = hist_common.run_histories(pool, 'hist.stats', [dict(obj['other'], write_report=False), obj['history']], per_job=1)
    pool.close()
    k = obj['class'].replace('split-dependent-', '')
    try:
        a, b = res[0]['value']['final'].get(k), res[1]['value']['final'].get(k)
    except (KeyError, TypeError):
        a, b = None, 'error'
    if a != b:
        print(f'REPRODUCED class={obj["class"]}')
        print(f'VIOLATION property=C13 replay={args.replay}')
        return 1
    print('NOT-REPRODUCED')
    return 0


if __name__ == '__main__':
    common.main_wrapper(run)
