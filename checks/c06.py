"""C06 - the rank graph covers exactly the requested pairs, in both orientations (engine `pipe`)."""
from __future__ import annotations

from checks import common, pipe_common


def cap_fn(rng, ncols):
    target_pairs = ncols
    pairwise_pairs = ncols * (ncols + 1) // 2
    base = rng.choice([target_pairs, pairwise_pairs, pairwise_pairs + ncols - 1])
    return rng.choice([None, 1, 2, max(1, base - 1), base, base + 1, base + ncols, rng.randrange(1, base + 2), 10 ** 6])


def interaction(rng, wl):
    return 2 if len(wl['header']) <= 5 and rng.random() < 0.35 else None


PROFILE = {
    'oracles': ['C06'],
    'heuristics': ['MI-numba-randomized', 'MI-numba-randomized', 'MI-numba-3mr', 'MI-numba-3mr', 'Constant', 'max-value-coverage'],
    'minibatch': [3, 4, 6, 9],
    'batches': [1, 1, 2],
    'delta': [0],
    'ncols': [1, 2, 3, 4, 5, 6, 8, 12, 20, 30, 40],
    'target_only': ['True', 'False', 'False'],
    'malformed': [0.0],
    'subsampling': [1],
    'cap': cap_fn,
    'cli_extra': {'interaction_order': interaction},
    'colopts': {'rel_names': 0.2},
    'poison': 0.2,
    'more_runs': 0.2,
    'ref_json': 0.1,
}

RULE = ('spec = column set (1..40 columns, label anywhere, names optionally containing the relation marker " AND_REL ") with tiny row counts x target-only/pairwise '
        'x heuristic (randomized, 3mr with/without interaction order 2, Constant, coverage) x cap in {1, 2, #candidates-1, #candidates, +1, +#columns, random, none} '
        'x pool size x seeded schedule.  distinct_nontrivial = distinct (mode, 3mr?, Constant?, #columns, label position class, cap class).')


def signature(spec, v):
    cli = spec['cli']
    hdr = spec['workload']['header']
    lp = hdr.index(spec['workload']['label'])
    cap = cli.get('combination_number_upper_bound')
    n = len(hdr)
    pairs = n if cli['target_ranking_only'] == 'True' and '3mr' not in cli['heuristic'] else n * (n + 1) // 2
    capc = 'none' if cap is None else 'cap=1' if cap == 1 else 'below' if cap < pairs else 'exact' if cap == pairs else 'above'
    return (cli['target_ranking_only'], '3mr' in cli['heuristic'], cli['heuristic'] == 'Constant', n, 'first' if lp == 0 else 'last' if lp == n - 1 else 'mid', capc, cli.get('interaction_order', 1))


def nontrivial(spec, v):
    return v.get('graph_calls', 0) >= 1


def run(args):
    return pipe_common.run_check('C06', args, PROFILE, RULE, signature, nontrivial, batch=96,
                                 assumptions=['requested-pair model: sim/refmodel/pairs.py; candidate count accepts diagonals listed once or twice'])


if __name__ == '__main__':
    common.main_wrapper(run)
