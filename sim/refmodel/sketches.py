"""Exact references for the sketches (C14, C15)."""
from __future__ import annotations

from collections import Counter


class ExactSet:
    def __init__(self):
        self.s = set()

    def add(self, v):
        self.s.add(v)

    def __len__(self):
        return len(self.s)


class ExactWeights:
    def __init__(self):
        self.c = Counter()
        self.total = 0

    def add(self, x, w=1):
        self.c[x] += w
        self.total += w
