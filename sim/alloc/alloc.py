"""Python side of the PoisonAllocator (see poison.c)."""
from __future__ import annotations

import ctypes
import os
import struct

_LIB = None

# 64-bit words that matter for an index buffer of doubles that is cast to int32 and used as row
# indices: zero, small in-range doubles, boundary doubles, huge, NaN, negative, classic debug fills.
def palette(n):
    def d(x):
        return struct.unpack('<Q', struct.pack('<d', float(x)))[0]
    return [
        ('zero', 0), ('d:1', d(1.0)), ('d:mid', d(max(0, n // 2))), ('d:n-1', d(max(0, n - 1))), ('d:n', d(n)),
        ('d:1e9', d(1e9)), ('d:1e300', d(1e300)), ('d:nan', d(float('nan'))), ('d:-1', d(-1.0)),
        ('d:0.5', d(0.5)), ('0xCD', 0xCDCDCDCDCDCDCDCD), ('0xFF', 0xFFFFFFFFFFFFFFFF),
    ]


def lib():
    global _LIB
    if _LIB is None:
        here = os.path.dirname(os.path.dirname(os.path.dirname(os.path.abspath(__file__))))
        path = os.path.join(os.environ.get('VERIF_BUILD') or os.path.join(here, 'build'), 'libpoison.so')
        _LIB = ctypes.PyDLL(path)
        _LIB.poison_install.argtypes = [ctypes.c_uint64, ctypes.c_uint64, ctypes.c_int]
        _LIB.poison_set.argtypes = [ctypes.c_uint64, ctypes.c_uint64, ctypes.c_int]
        _LIB.poison_stat.argtypes = [ctypes.c_int]
        _LIB.poison_stat.restype = ctypes.c_uint64
    return _LIB


def install(spec):
    """spec: {'mode': 0|1, 'word': int, 'seed': int} or None (no poisoning)."""
    if not spec:
        return False
    from numba.core.runtime import _nrt_python
    _nrt_python.memsys_use_cpython_allocator()
    lib().poison_install(int(spec.get('seed', 1)) & (2**64 - 1), int(spec.get('word', 0)) & (2**64 - 1), int(spec.get('mode', 0)))
    return True


def stats():
    l = lib()
    return {'mallocs': int(l.poison_stat(0)), 'frees': int(l.poison_stat(1)), 'bytes_filled': int(l.poison_stat(2))}
