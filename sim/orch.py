"""Orchestrator side: a pool of zygotes (one hash seed each), job dispatch, result collection."""
from __future__ import annotations

import atexit
import json
import os
import shutil
import subprocess
import sys
import threading
import time

VERIF = os.path.dirname(os.path.dirname(os.path.abspath(__file__)))
PY = '/venv/bin/python'


class HarnessError(Exception):
    pass


def repo_path():
    return os.environ.get('VERIF_REPO', '/repo')


class _Zygote:
    """One server process (reached through a private pipe pair) of a hash-seed group."""

    def __init__(self, hashseed, idx, wjob, rres, group):
        self.hashseed = hashseed
        self.idx = idx
        self.w = os.fdopen(wjob, 'w', buffering=1)
        self.r = os.fdopen(rres, 'r')
        self.group = group
        self.ready = None

    def wait_ready(self):
        line = self.r.readline()
        if not line:
            raise HarnessError(f'zygote {self.idx} died during import: ' + self.group.tail_err())
        info = json.loads(line)
        if not info.get('ready'):
            raise HarnessError(f'zygote {self.idx}: {info.get("error")}')
        self.ready = info
        return info

    def call(self, job):
        self.w.write(json.dumps(job) + '\n')
        self.w.flush()
        line = self.r.readline()
        if not line:
            raise HarnessError(f'zygote {self.idx} died while serving a job: ' + self.group.tail_err())
        return json.loads(line)

    def close(self):
        try:
            self.w.write(json.dumps({'op': 'quit'}) + '\n')
            self.w.flush()
            self.w.close()
        except Exception:  # noqa: BLE001
            pass


class _Group:
    """All zygotes of one hash seed: one interpreter start + import, then forks."""

    def __init__(self, hashseed, count, simbase, first_idx):
        env = dict(os.environ)
        env['PYTHONHASHSEED'] = str(hashseed)
        env['VERIF_REPO'] = repo_path()
        env['SIM_BASE'] = simbase
        env['VERIF_BUILD'] = os.path.join(VERIF, 'build')
        env['PYTHONDONTWRITEBYTECODE'] = '1'
        env.pop('PYTHONPATH', None)
        self.errlog = os.path.join(simbase, f'zygote-h{hashseed}.err')
        self._errfh = open(self.errlog, 'wb')
        child_fds, self.z, spec = [], [], []
        for i in range(count):
            rjob, wjob = os.pipe()
            rres, wres = os.pipe()
            child_fds += [rjob, wres]
            spec.append(f'{rjob}:{wres}')
            self.z.append((wjob, rres))
        self.p = subprocess.Popen([PY, '-u', '-m', 'sim.zygote', ','.join(spec)], cwd=VERIF, env=env,
                                  stdin=subprocess.DEVNULL, stdout=self._errfh, stderr=self._errfh,
                                  pass_fds=child_fds)
        for fd in child_fds:
            os.close(fd)
        self.z = [_Zygote(hashseed, first_idx + i, wj, rr, self) for i, (wj, rr) in enumerate(self.z)]

    def tail_err(self):
        try:
            with open(self.errlog, 'rb') as fh:
                return fh.read()[-3000:].decode('utf-8', 'replace')
        except OSError:
            return ''

    def close(self):
        for z in self.z:
            z.close()
        try:
            self.p.wait(timeout=5)
        except Exception:  # noqa: BLE001
            self.p.kill()
        self._errfh.close()


class ZygotePool:
    """width zygotes spread round-robin over the given hash seeds."""

    def __init__(self, hashseeds=(0,), width=None):
        width = width or int(os.environ.get('VERIF_WIDTH', '16'))
        self.hashseeds = list(hashseeds)
        width = max(width, len(self.hashseeds))
        shm = '/dev/shm' if os.path.isdir('/dev/shm') and os.access('/dev/shm', os.W_OK) else (os.environ.get('TMPDIR') or '/tmp')
        self.simbase = os.path.join(shm, f'outrank-sim-{os.getpid()}')
        os.makedirs(self.simbase, exist_ok=True)
        atexit.register(self.close)
        counts = [width // len(self.hashseeds) + (1 if i < width % len(self.hashseeds) else 0) for i in range(len(self.hashseeds))]
        self.groups, self.z = [], []
        for h, c in zip(self.hashseeds, counts):
            g = _Group(h, c, self.simbase, len(self.z))
            self.groups.append(g)
            self.z += g.z
        t0 = time.time()
        for z in self.z:
            z.wait_ready()
        self.startup_s = time.time() - t0
        self.info = self.z[0].ready
        self.jobs_run = 0
        self._closed = False

    def run(self, jobs, progress=None):
        """Run all jobs; returns results in job order.  job['hashseed'] (optional) pins a hash seed."""
        results = [None] * len(jobs)
        lock = threading.Lock()
        pending = list(range(len(jobs)))
        errors = []

        def worker(z):
            while True:
                with lock:
                    pick = None
                    for k, ji in enumerate(pending):
                        hs = jobs[ji].get('hashseed')
                        if hs is None or hs == z.hashseed:
                            pick = k
                            break
                    if pick is None or errors:
                        return
                    ji = pending.pop(pick)
                job = dict(jobs[ji])
                job['id'] = ji
                job['hashseed'] = z.hashseed
                try:
                    res = z.call(job)
                except Exception as e:  # noqa: BLE001
                    with lock:
                        errors.append(e)
                    return
                res['hashseed'] = z.hashseed
                results[ji] = res
                if progress:
                    progress(ji, res)

        for j in jobs:
            hs = j.get('hashseed')
            if hs is not None and hs not in self.hashseeds:
                raise HarnessError(f'job wants hash seed {hs}, pool has {self.hashseeds}')
        threads = [threading.Thread(target=worker, args=(z,), daemon=True) for z in self.z]
        for t in threads:
            t.start()
        for t in threads:
            t.join()
        if errors:
            raise HarnessError(str(errors[0]))
        self.jobs_run += len(jobs)
        return results

    def close(self):
        if self._closed:
            return
        self._closed = True
        for g in self.groups:
            g.close()
        shutil.rmtree(self.simbase, ignore_errors=True)
