"""Requested pair set of a batch (C06), as unordered pairs (frozenset of 1 or 2 names)."""
from __future__ import annotations


def optional_pairs(columns, label, target_only, is_3mr):
    """Pairs the statement neither demands nor clearly forbids: in pairwise mode every column is paired
    with itself, which for a 3MR relation feature conflicts with 'paired with the label only' - both
    readings are accepted."""
    if is_3mr and not target_only:
        return {frozenset((c, c)) for c in columns if ' AND_REL ' in c}
    return set()


def requested_pairs(columns, label, target_only, is_3mr):
    cols = list(columns)
    out = set()
    if is_3mr:
        rel = [c for c in cols if ' AND_REL ' in c]
        non = [c for c in cols if ' AND_REL ' not in c]
        for i, a in enumerate(non):
            for b in non[i:]:
                out.add(frozenset((a, b)))
        for c in rel:
            out.add(frozenset((c, label)))
    elif target_only:
        for c in cols:
            if label in cols:
                out.add(frozenset((c, label)))
    else:
        for i, a in enumerate(cols):
            for b in cols[i:]:
                out.add(frozenset((a, b)))
    return out
