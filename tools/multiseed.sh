#!/bin/bash
# false-alarm hunt: every quick check under several VERIF_SEED values on the unchanged tree; every run must exit 0
cd "$(dirname "$0")/.."
bash ./setup.sh > /dev/null
SEEDS=${SEEDS:-"1 2 3 4 5"}
bad=0
for S in $SEEDS; do
  for P in C04 C05 C06 C07 C08 C09 C13 C14 C15; do
    out=$(VERIF_SEED=$S ./check $P --tier quick --no-evidence 2>&1); code=$?
    echo "seed=$S $P exit=$code $(echo "$out" | grep -E "^$P tier" | cut -c1-160)"
    if [ $code -ne 0 ]; then bad=$((bad+1)); echo "$out" | grep -E "^(VIOLATION|HARNESS|  class|  detail)" | cut -c1-1500; fi
  done
done
echo "multiseed: bad=$bad"
exit $bad
