"""Exact recomputation of the data-quality statistics (C13) and the bounded counter (C15)."""
from __future__ import annotations

from collections import Counter


def coverage(batch_rows, ncols, missing_symbols):
    """per column: percentage of cells that are not a missing symbol"""
    out = []
    n = len(batch_rows)
    for j in range(ncols):
        missing = sum(1 for r in batch_rows if r[j] in missing_symbols)
        out.append((1 - missing / n) * 100)
    return out


def annotation_coverage(per_batch):
    m = sum(per_batch) / len(per_batch)
    return int(round(m, 1))


def distinct_nonempty(values):
    return len({v for v in values if v})


class BoundedCounter:
    """Updates are refused once the number of tracked keys has reached the bound."""

    def __init__(self, bound):
        self.bound = bound
        self.c = Counter()

    def add(self, v):
        if len(self.c) < self.bound:
            self.c[v] += 1


def repetition_histogram(counts):
    """{threshold: number of tracked values seen more than threshold times}"""
    vals = list(counts.values())
    return {x: sum(1 for v in vals if v > x) for x in [0] + [10 ** k for k in range(6)]}


def rare_values(rows_by_column, threshold):
    """{(column, value): count} for all pairs seen at most `threshold` times"""
    out = {}
    for col, values in rows_by_column.items():
        for v, c in Counter(values).items():
            if c <= threshold:
                out[(col, v)] = c
    return out
