"""C08 - streaming equals reference batch semantics with median aggregation (engine `pipe`).

The real ranking task runs end to end on a generated CSV (row counts around every batch / tail
boundary, malformed rows anywhere, CRLF, missing final newline) under SimPool/SimClock/SimFS.
Monitors compare the rows entering every mini-batch with the reference batching, the on-disk
checkpoint with the median aggregation at every batch boundary and at every injected kill, and the
final pairwise_ranks.tsv with the median of the recorded per-batch scores in ascending order.  A
killed run is restarted on its dirty directory and must produce the undisturbed run's output."""
from __future__ import annotations

from checks import common, pipe_common

PROFILE = {
    'oracles': ['C08'],
    'heuristics': ['MI-numba-randomized'] * 6 + ['MI-numba-3mr', 'max-value-coverage', 'MI', 'correlation-Pearson'],
    'malformed': [0.0, 0.0, 0.05, 0.2, 0.5],
    'tail_prob': 0.12,
    'short_reads': 0.15,
    'batches': [0, 1, 1, 2, 2, 3, 4, 6],
    'delta': [0, 0, 0, 1, -1, 2],
    'target_only': ['True', 'True', 'True', 'False'],
    'more_runs': 0.08,
    'cli_extra': {
        'include_noise_baseline_features': lambda rng, wl: 'True' if rng.random() < 0.06 else None,
        'interaction_order': lambda rng, wl: 2 if 3 <= len(wl['header']) <= 5 and rng.random() < 0.08 else None,
        'feature_set_focus': lambda rng, wl: ','.join([h for h in wl['header'] if h != wl['label']][:2]) if len(wl['header']) >= 4 and rng.random() < 0.06 else None,
        'explode_multivalue_features': lambda rng, wl: wl['header'][wl['kinds'].index('multi')] if 'multi' in wl['kinds'] and rng.random() < 0.5 else None,
        'mi_stratified_sampling_ratio': lambda rng, wl: rng.choice([0.3, 0.53, 0.9]) if rng.random() < 0.06 else None,
    },
}

RULE = ('spec = generated CSV (1-6 columns, row counts k*m-1 / k*m / k*m+1 and 1023/1024/1025 rows left over, malformed / blank lines anywhere, CRLF, '
        'missing final newline) x (minibatch_size, subsampling) x heuristic x pool size x seeded schedule x fs mode (write-through / buffered, short raw reads) '
        'x optional poison allocator; 70% of the runs are repeated with a kill at a seeded yield point (line read, poll sleep, chunk completion, batch boundary, '
        'checkpoint open/write/close, final writes) followed by a restart on the dirty directory.  distinct_nontrivial = distinct (rows mod m class, tail class, '
        '#batches class, malformed placement class, pool size class) with >= 2 batches or a tail decision, plus distinct (crash site, batch progress) pairs of kills that fired.')


def _post(rng, spec):
    cli = spec['cli']
    if rng.random() < 0.15:
        spec['workload']['source'] = 'ob-csv'      # column names and types from dataset_desc.json; first line of data.csv is skipped as a header
        spec['workload']['float_cols'] = []
    ex = cli.get('explode_multivalue_features')
    if cli.get('feature_set_focus') and ex and ex not in cli['feature_set_focus'].split(','):
        cli['feature_set_focus'] += ',' + ex


PROFILE['post'] = _post


def signature(spec, v):
    cli = spec['cli']
    m = cli['minibatch_size']
    tail = v.get('tail_rows', 0)
    lines = spec['workload']['lines']
    bad = [i for i, ln in enumerate(lines) if not ln['ok']]
    place = 'none' if not bad else 'first' if bad[0] == 0 else 'last' if bad[-1] == len(lines) - 1 else 'middle'
    return ('run', 'tail0' if tail == 0 else 'tail1' if tail == 1 else 'tail=m-1' if tail == m - 1 else 'tail1023' if tail == 1023 else 'tail1024' if tail == 1024 else 'tail1025' if tail == 1025 else 'tail>1024' if tail > 1024 else 'tail-mid',
            min(v.get('expected_batches', 0), 4), place, cli['subsampling'] > 1, min(cli['num_threads'], 4))


def nontrivial(spec, v):
    return v.get('expected_batches', 0) >= 2 or v.get('tail_rows', 0) >= 1023


def run(args):
    return pipe_common.run_check('C08', args, PROFILE, RULE, signature, nontrivial, crash_mode=True,
                                 assumptions=['a kill is modelled as immediate process end (no unwinding, user-space buffers lost); power loss / EIO / ENOSPC are not injected',
                                              'SimPool reproduces multiprocess.Pool.map_async chunking and ordering; worker death is not modelled'])


if __name__ == '__main__':
    common.main_wrapper(run)
