#!/venv/bin/python
"""Prints the markdown tables of DESIGN.md section 13 from the recorded results
(build/sens_*.json written by selftest/sensitivity.py, seeded/*/meta.json written by tools/seed_eval.py)."""
import glob, json, os, sys
V = os.path.dirname(os.path.dirname(os.path.abspath(__file__)))
sys.path.insert(0, V)
from selftest.mutants import MUTANTS, EQUIVALENT
notes = {m['id']: m['note'] for m in MUTANTS + EQUIVALENT}
rows = []
for p in sorted(glob.glob(os.path.join(V, 'build', 'sens_*.json'))) + sorted(glob.glob(os.path.join(V, 'selftest', 'results', 'sens_*.json'))):
    for e in json.load(open(p)):
        rows.append(e)
seen = {}
for e in rows:
    seen[e['id']] = e
print('| mutant | property | change | expected | check result | class reported | replay reproduces / silent on clean tree |')
print('|---|---|---|---|---|---|---|')
for k in sorted(seen):
    e = seen[k]
    cls = e.get('class', '').replace('class=', '').split(' key=')[0]
    print(f"| {e['id']} | {e['prop']} | {notes.get(e['id'], e.get('note',''))} | {e['expected']} | {'VIOLATION' if e['exit']==1 else 'silent' if e['exit']==0 else 'exit '+str(e['exit'])} ({e['wall_s']} s) | {cls[:60]} | {e.get('replay_reproduced', '-')} / {e.get('replay_silent_on_clean_tree', '-')} |")
print()
print('| seeded change | breaks | needs | tests pass / demo fails / demo passes clean | detected by (class) | missed by |')
print('|---|---|---|---|---|---|')
for mp in sorted(glob.glob(os.path.join(V, 'seeded', '*', 'meta.json'))):
    m = json.load(open(mp))
    c = m.get('confirmed', {})
    det = m.get('detection', {})
    d_ok = [f"{p} ({[r for r in v['runs'] if r['exit']==1][0]['class'].replace('class=','').split(' key=')[0][:40]})" for p, v in det.items() if v.get('detected')]
    d_no = [p for p, v in det.items() if not v.get('detected')]
    print(f"| {m['id']} | {m.get('breaks')} | {m.get('needs','')} | {c.get('tests_pass_with_change')} / {c.get('demo_fails_with_change')} / {c.get('demo_passes_without_change')} | {', '.join(d_ok) or '-'} | {', '.join(d_no) or '-'} |")
