#!/venv/bin/python
"""Evaluate a seeded change under /verif/seeded/<id>/ (patch.diff, demo.py, meta.json):

  confirm : in a scratch git worktree of /repo (under /tmp, removed afterwards) verify that
            (a) the repository's test-suite still passes with the change, (b) the demonstration fails with
            it, (c) the demonstration passes without it;
  detect  : run the quick check(s) of the property against a scratch copy of the package with the change
            applied (VERIF_REPO=<copy>), expect VIOLATION, replay the file, and run the same replay against
            the unchanged tree (must stay silent).

Results are written into meta.json.  /repo itself is never modified by this tool.
usage: tools/seed_eval.py <id> [confirm] [detect] [--checks C08,C09] [--budget 60] [--seeds 1,2]
"""
from __future__ import annotations

import argparse
import json
import os
import re
import shutil
import subprocess
import sys
import tempfile
import time

VERIF = os.path.dirname(os.path.dirname(os.path.abspath(__file__)))
PY = '/venv/bin/python'


def sh(cmd, **kw):
    return subprocess.run(cmd, capture_output=True, text=True, **kw)


def confirm(sd, meta):
    wt = tempfile.mkdtemp(prefix='seedchk-', dir='/tmp')
    os.rmdir(wt)
    r = sh(['git', '-C', '/repo', 'worktree', 'add', '-q', '--detach', wt, 'HEAD'])
    if r.returncode:
        raise RuntimeError(r.stderr)
    out = {}
    try:
        os.makedirs(os.path.join(wt, 'SEED', 'X'))
        shutil.copy(os.path.join(sd, 'demo.py'), os.path.join(wt, 'SEED', 'X', 'demo.py'))
        env = dict(os.environ, PYTHONPATH=wt, PYTHONDONTWRITEBYTECODE='1')
        # (c) demo passes on the unchanged code
        r = sh([PY, os.path.join(wt, 'SEED', 'X', 'demo.py')], env=env, cwd=wt, timeout=1800)
        out['demo_passes_without_change'] = r.returncode == 0
        out['demo_clean_tail'] = (r.stdout + r.stderr)[-300:]
        a = sh(['git', '-C', wt, 'apply', os.path.join(sd, 'patch.diff')])
        if a.returncode:
            out['apply_error'] = a.stderr[-500:]
            return out
        # (b) demo fails with the change
        r = sh([PY, os.path.join(wt, 'SEED', 'X', 'demo.py')], env=env, cwd=wt, timeout=1800)
        out['demo_fails_with_change'] = r.returncode != 0
        out['demo_changed_tail'] = (r.stdout + r.stderr)[-400:]
        # (a) test-suite passes with the change
        t0 = time.time()
        r = sh([PY, '-m', 'pytest', '-q', '-p', 'no:cacheprovider', '--timeout=900', 'tests'], env=env, cwd=wt, timeout=3000)
        out['pytest_exit'] = r.returncode
        out['pytest_tail'] = r.stdout.strip().splitlines()[-1] if r.stdout.strip() else r.stderr[-200:]
        out['pytest_wall_s'] = round(time.time() - t0)
        out['tests_pass_with_change'] = r.returncode == 0
    finally:
        sh(['git', '-C', '/repo', 'worktree', 'remove', '--force', wt])
        shutil.rmtree(wt, ignore_errors=True)
    return out


def make_copy(sd):
    d = tempfile.mkdtemp(prefix='seedrun-', dir='/tmp')
    # tracked files of /repo's HEAD, exported without creating a worktree
    subprocess.run(f'git -C /repo archive HEAD | tar -x -C {d}', shell=True, check=True)
    a = sh(['git', 'apply', os.path.join(sd, 'patch.diff')], cwd=d)
    if a.returncode:
        a = sh(['patch', '-p1', '-d', d, '-i', os.path.join(sd, 'patch.diff')])
        if a.returncode:
            shutil.rmtree(d, ignore_errors=True)
            raise RuntimeError('cannot apply patch: ' + a.stderr + a.stdout)
    return d


TIER = 'quick'


def run_check(prop, repo, budget, seed=None, replay=None):
    env = dict(os.environ, VERIF_REPO=repo)
    cmd = [os.path.join(VERIF, 'check'), prop, '--tier', TIER, '--no-evidence']
    if replay:
        cmd += ['--replay', replay]
    else:
        cmd += ['--budget', str(budget)]
        if seed is not None:
            cmd += ['--seed', str(seed)]
    t0 = time.time()
    p = sh(cmd, env=env, timeout=3600)
    return p.returncode, p.stdout, time.time() - t0


def detect(sd, meta, checks, budget, seeds):
    d = make_copy(sd)
    res = {}
    try:
        for prop in checks:
            entry = {'runs': []}
            for seed in seeds:
                code, out, wall = run_check(prop, d, budget, seed=seed)
                line = next((l for l in out.splitlines() if l.startswith('VIOLATION')), None)
                cls = next((l.strip() for l in out.splitlines() if l.strip().startswith('class=')), '')
                run = {'seed': seed, 'exit': code, 'wall_s': round(wall, 1), 'class': cls[:200]}
                if code == 1 and line:
                    rp = re.search(r'replay=(\S+)', line).group(1)
                    rc, ro, _ = run_check(prop, d, budget, replay=rp)
                    run['replay_reproduced'] = rc == 1
                    cc, co, _ = run_check(prop, '/repo', budget, replay=rp)
                    run['replay_silent_on_unchanged_tree'] = cc == 0
                    keep = os.path.join(sd, f'replay-{prop}.json')
                    if not os.path.exists(keep):
                        shutil.copy(rp, keep)
                    try:
                        os.remove(rp)
                    except OSError:
                        pass
                elif code == 2:
                    run['harness_error'] = out[-600:]
                entry['runs'].append(run)
                if code == 1:
                    break
            entry['detected'] = any(r['exit'] == 1 for r in entry['runs'])
            res[prop] = entry
            print(f"{os.path.basename(sd)} {prop}: {'DETECTED' if entry['detected'] else 'missed'} {entry['runs'][-1]}", flush=True)
    finally:
        shutil.rmtree(d, ignore_errors=True)
    return res


def main():
    ap = argparse.ArgumentParser()
    ap.add_argument('id')
    ap.add_argument('actions', nargs='*', default=['confirm', 'detect'])
    ap.add_argument('--checks', default='')
    ap.add_argument('--budget', type=float, default=60)
    ap.add_argument('--seeds', default='20261002,1')
    ap.add_argument('--tier', default='quick')
    a = ap.parse_args()
    global TIER
    TIER = a.tier
    sd = os.path.join(VERIF, 'seeded', a.id)
    mp = os.path.join(sd, 'meta.json')
    meta = json.load(open(mp)) if os.path.exists(mp) else {'id': a.id}
    if 'confirm' in a.actions:
        meta['confirmed'] = confirm(sd, meta)
        print(a.id, 'confirm:', {k: v for k, v in meta['confirmed'].items() if not k.endswith('tail')}, flush=True)
    if 'detect' in a.actions:
        checks = [c for c in (a.checks or meta.get('breaks') or '').split(',') if c]
        res = detect(sd, meta, checks, a.budget, [int(s) for s in a.seeds.split(',')])
        if a.tier != 'quick':
            res = {f'{k}@{a.tier}': v for k, v in res.items()}
        meta.setdefault('detection', {}).update(res)
    with open(mp, 'w') as fh:
        json.dump(meta, fh, indent=1)
    return 0


if __name__ == '__main__':
    sys.exit(main())
