"""C14 - cardinality sketch: exact while warm, within 2% beyond, duplicate-blind (engine `hist`).
No fault dimension: the seams are the insertion history (order, duplication, crossing of the
warm-up boundary) and the interpreter hash seed."""
from __future__ import annotations

import copy

from checks import common, hist_common

W = 2 ** 18


def gen(rng, tier):
    kind = rng.choice(['hex', 'hex', 'str', 'str-with-empty', 'unicode', 'hex8', 'dec8', 'hexcounter'])
    order = lambda: rng.choice(['asc', 'asc', 'desc', 'shuffle'])
    mode = rng.random()
    h = {'kind': kind, 'seed': rng.randrange(2 ** 31), 'ops': []}
    if rng.random() < 0.3:
        h['decoy'] = True          # a second sketch alive in the same process
    ops = h['ops']

    def dup_block():
        for _ in range(rng.randrange(1, 4)):
            ops.append(['re_add', rng.choice([1, 1, 2, 10, 100]), rng.choice(['old', 'recent', 'boundary', 'any'])])
            if rng.random() < 0.5:
                ops.append(['probe'])
    real_boundary_p = 0.10 if tier == 'quick' else 0.15
    if mode < real_boundary_p:
        # real parameters, history ends around the warm-up boundary
        first = W - rng.choice([0, 0, 1, 2, 3, 10])
        chunks = rng.choice([1, 2, 3])
        left = first
        for c in range(chunks):
            n = left if c == chunks - 1 else rng.randrange(1, left)
            ops.append(['add_new', n, order()])
            left -= n
            if rng.random() < 0.5:
                dup_block()
        ops.append(['probe'])
        for _ in range(rng.randrange(1, 6)):
            k = rng.random()
            if k < 0.5:
                dup_block()
            else:
                ops.append(['add_new', rng.choice([1, 1, 1, 2, 5, 50, 1000]), order()])
            ops.append(['probe'])
        h['timeout'] = 60
        h['shape'] = 'real-boundary'
    elif mode < real_boundary_p + (0.03 if tier == 'thorough' else 0.0):
        # real parameters, far beyond the boundary
        top = rng.choice([2 ** 19, 2 ** 20, 2 ** 21])
        done = 0
        while done < top:
            n = min(top - done, rng.choice([2 ** 17, 2 ** 18, 2 ** 18 + 1, 2 ** 19]))
            ops.append(['add_new', n, 'asc'])
            done += n
            ops.append(['probe'])
            if rng.random() < 0.5:
                dup_block()
        h['timeout'] = 300
        h['shape'] = 'real-far'
    elif mode < real_boundary_p + 0.08:
        # real parameters: cross the switch, then grow well beyond 2% with probes in between (stale or frozen estimates show here)
        ops.append(['add_new', W, 'asc'])
        ops.append(['probe'])
        for _ in range(rng.randrange(1, 4)):
            ops.append(['add_new', rng.choice([20000, 40000, 70000]), 'asc'])
            if rng.random() < 0.3:
                ops.append(['tick', rng.choice([0.5, 6.0, 3600.0])])
            ops.append(['probe'])
        h['timeout'] = 90
        h['shape'] = 'real-grow'
    elif mode < 0.45:
        # real parameters, well inside the exact range
        for _ in range(rng.randrange(1, 8)):
            ops.append(['add_new', rng.choice([0, 1, 2, 10, 100, 1000, 5000]), order()])
            if rng.random() < 0.6:
                dup_block()
            ops.append(['probe'])
        h['shape'] = 'real-small'
    else:
        # scaled knobs: cross the switch quickly, many times per second
        p = rng.choice([8, 9, 10, 11, 12])
        h['scaled_p'] = p
        w = 1 << (p - 1)
        first = w - rng.choice([0, 0, 1, 2, 5, rng.randrange(0, w)])
        ops.append(['add_new', max(0, first), order()])
        for _ in range(rng.randrange(2, 12)):
            k = rng.random()
            if k < 0.45:
                dup_block()
            else:
                ops.append(['add_new', rng.choice([1, 1, 2, 3, w // 4, w]), order()])
            if rng.random() < 0.7:
                ops.append(['probe'])
            if rng.random() < 0.1:
                ops.append(['tick', rng.choice([0.5, 6.0, 3600.0])])
        h['shape'] = 'scaled'
        if rng.random() < 0.15:
            h['kind'] = 'long'             # values of several hundred characters (only affordable with scaled knobs)
    return h


def candidates(h):
    out = []
    for ops in hist_common.ddmin_list(h['ops']):
        out.append(dict(h, ops=ops))
    for i, op in enumerate(h['ops']):
        if op[0] == 'add_new' and len(op) > 2 and op[2] != 'asc':
            o = copy.deepcopy(h['ops'])
            o[i][2] = 'asc'
            out.append(dict(h, ops=o))
        if op[0] == 're_add' and op[1] > 1:
            o = copy.deepcopy(h['ops'])
            o[i][1] = 1
            out.append(dict(h, ops=o))
        if op[0] == 'add_new' and op[1] > 1 and (h.get('scaled_p') or op[1] < 1000):
            o = copy.deepcopy(h['ops'])
            o[i][1] = op[1] // 2
            out.append(dict(h, ops=o))
    # merge adjacent add_new ops
    for i in range(len(h['ops']) - 1):
        a, b = h['ops'][i], h['ops'][i + 1]
        if a[0] == 'add_new' and b[0] == 'add_new':
            o = copy.deepcopy(h['ops'])
            o[i] = ['add_new', a[1] + b[1], 'asc']
            del o[i + 1]
            out.append(dict(h, ops=o))
    if h.get('kind') != 'hex':
        out.append(dict(h, kind='hex'))
    if h.get('decoy'):
        out.append({k: v for k, v in h.items() if k != 'decoy'})
    return out


def size(h):
    return (len(h['ops']), sum(op[1] for op in h['ops'] if op[0] in ('add_new', 're_add')), 0 if h.get('kind') == 'hex' else 1)


def signature(h, v):
    d = v.get('distinct', 0)
    lim = (1 << (h['scaled_p'] - 1)) if h.get('scaled_p') else W
    rel = 'below' if d < lim - 1 else 'at-1' if d == lim - 1 else 'at' if d == lim else 'at+1' if d == lim + 1 else 'beyond'
    return (h.get('shape'), h.get('scaled_p'), h['kind'], rel, v.get('dup_after_switch', 0) > 0, bool(h.get('decoy')))


def nontrivial(h, v):
    lim = (1 << (h['scaled_p'] - 1)) if h.get('scaled_p') else W
    return v.get('distinct', 0) >= lim - 1


def record(rep, h, v):
    rep.add_counts(rep.probes, {'probes': v.get('probes', 0), 'histories_crossing_switch': 1 if v.get('crossed') else 0,
                                'duplicates_after_switch': v.get('dup_after_switch', 0),
                                'real_parameter_histories_at_boundary': 1 if h.get('shape') == 'real-boundary' else 0,
                                'real_parameter_histories_beyond_2^19': 1 if h.get('shape') == 'real-far' else 0})
    if v.get('skipped'):
        rep.add_counts(rep.probes, {'scaled_mode_unavailable': 1})


RULE = ('history = seeded list of bulk operations add_new(k, order asc/desc/shuffled), re_add(k, old/recent/boundary/any), probe on the real HyperLogLogWCache; '
        'shapes: real parameters ending at 2^18-{0,1,2,3,10} distinct then duplicates / single new values across the switch, real parameters well inside the exact range, '
        '(thorough) real parameters up to 2^19/2^20/2^21, and scaled knobs (p=8..12) crossing the switch many times; value kinds: 48-bit hex digests, plain strings, unicode strings, '
        '8-digit hex strings shaped like the pipeline\'s 32-bit value hashes (distinct by construction); hash seeds per zygote.  Oracle at every probe: len == distinct while distinct <= 2^18 (scaled: <= m/2), |len-distinct| <= 2% up to 2^21 '
        '(real parameters only), a re_add never changes len.  distinct_nontrivial = distinct (shape, p, value kind, position relative to the boundary, duplicates-after-switch) '
        'among histories that reach the boundary-1 or beyond.')


def run(args):
    return hist_common.run_check('C14', args, 'hist.hll', gen, RULE, signature, nontrivial, candidates, per_round=96, per_job=3, record=record,
                                 sample_of=lambda h: {k: h[k] for k in ('kind', 'ops', 'scaled_p', 'shape') if k in h},
                                 real_components=['outrank.algorithms.sketches.counting_ultiloglog.HyperLogLogWCache (real parameters p=19; scaled mode changes the instance attributes p/m/warmup_size/width only)'],
                                 stub_components=[],
                                 assumptions=['no fault dimension: seams are insertion history and hash seed', 'in scaled mode only exactness up to m/2 and duplicate-blindness are asserted (the 2% figure belongs to p=19)'])


if __name__ == '__main__':
    common.main_wrapper(run)
