#!/usr/bin/env python3-vt
"""Regenerates MANIFEST.json from the table below (single source of truth) and validates it."""
import json, os, sys
V = os.path.dirname(os.path.dirname(os.path.abspath(__file__)))

CLAIMED = {
 'C04': dict(engine='alloc', design='§4 C04', technique='deterministic simulation: seeded allocator-fault injection (poison/churn) across forked simulated processes, differential oracle',
   text='Seeded exploration of (Y, X, r, correction) cases, each executed in 4 simulated processes that differ in allocator behaviour (natural heap with seeded churn, two fixed poison words, a poison stream) and hash seed, 3 repetitions each; oracle = normal termination, finite, bit-identical score everywhere, unchanged under alterations of Y outside the reference sampler\'s rows, quota-0 = full data, and identical when asked through the pipeline\'s plumbing (numba_mi) while one process serves changing ratios; pipeline mode: the whole ranking task with --mi_stratified_sampling_ratio < 1 writes the same ranks under every poison pattern. Sampling, not proof.',
   note='Trusted: numba NRT routes through PyMem RAW after memsys_use_cpython_allocator(); the C shim fills fresh and freed blocks; crash = death-by-signal of the forked child. The reference sampler (sim/refmodel/subsample.py) is the statement\'s quota rule.'),
 'C05': dict(engine='pipe', design='§4 C05', technique='deterministic simulation: real task under a seeded worker-pool scheduler and virtual clock, refinement of every emitted score against a reference scorer',
   text='Seeded exploration of batches of string columns x every documented non-surrogate heuristic x target-only/pairwise x pool sizes 1-16 x seeded schedules (assignment, service times, stalls, reordering, oversleeps and clock jumps) x optional second task in the same (long-lived) simulated process x (numba heuristics, ~1 run in 8) a generated --reference_model_JSON; every triplet that reaches the caller through the (simulated) pool is compared with a pure-Python reference scorer on the category codes of the frame that entered the rank graph, label as conditioning side. Sampling of inputs and schedules, not proof.',
   note='Trusted: SimPool mirrors multiprocess map_async (chunking, FIFO queue, ordered results, per-chunk dill copy, per-worker RNG/module state); reference scorers in sim/refmodel/heuristics.py (AMI delegated to scikit-learn); tolerance 1e-4(1+|ref|); max-value-coverage cases with a detected bucket collision are skipped and counted.'),
 'C06': dict(engine='pipe', design='§4 C06', technique='deterministic simulation: real rank graph under seeded pool schedules, pair-set oracle on what comes back from the pool',
   text='Seeded exploration of column sets (1-40 columns, label anywhere, names containing the relation marker) x target-only/pairwise x 3mr/non-3mr (also near misses of the marker) x caps from 1 to beyond the candidate count x pool sizes/schedules x optional second task in the same process with another label x (numba heuristics, ~1 run in 10) a generated --reference_model_JSON whose combined features join the feature space; oracle (against the cap given on the command line): emitted unordered pairs are a subset of the requested set (equal when the cap cannot bind), both orientations with identical score and multiplicity, Constant lists each selected pair once with 0, no foreign column, evaluated count = min(cap, candidates).',
   note='Trusted: SimPool as for C05; requested-pair model in sim/refmodel/pairs.py. The candidate count accepts both conventions (diagonal listed once or twice) so the oracle is no stricter than the statement.'),
 'C07': dict(engine='hist+pipe', design='§4 C07', technique='deterministic simulation: seeded batch histories on the real process-global counter in forked processes, per-step invariants against a counter model; same predicates on full multi-batch task runs',
   text='hist: seeded operation lists Batch(cap_i) over stable duplicate-free candidate lists (changing caps, interleaved key-disjoint second list) on the real prior_combinations_sample in a forked process; after every step: subset, distinct, len=min(cap,size), least-evaluated-first, counter==model, spread<=1. lists beyond 10^4 candidates included. pipe: the same predicates on every sampler call of multi-batch task runs with a binding cap (tail batches, kill + restart on the dirty directory, a second task in the same process), and combination_estimation_counts.json == recorded selections. The property itself has no fault dimension (stated in DESIGN); the pipeline part nevertheless runs under the pool/clock/crash simulator because the counter lives in process-global state that forked workers and restarts do not share.',
   note='Trusted: the counter model (sim/refmodel/sampler.py). In pipeline runs the spread<=1 predicate is not asserted for lists with duplicates (pairwise mode lists diagonals twice), as the statement restricts it to duplicate-free lists.'),
 'C08': dict(engine='pipe', design='§4 C08', technique='deterministic simulation with crash injection: real task end to end under simulated pool/clock/filesystem, kill at seeded yield points, restart on the dirty disk, refinement against a streaming/median reference model',
   text='Seeded exploration of CSV files (row counts around every batch and tail boundary, malformed rows anywhere, CRLF, missing final newline) x (minibatch_size, subsampling) x heuristics x pool sizes/schedules x fs modes; monitors compare the rows of every mini-batch with the reference batching, the on-disk checkpoint with the median aggregation at every batch boundary, at end of stream and after every injected kill (outside a checkpoint write), and pairwise_ranks.tsv with median-of-batches in ascending order; killed runs are restarted on the dirty directory and must reproduce the undisturbed output; a sprinkle of construction flags, ob-csv sources, oversleeps / clock jumps and second tasks in the same process.',
   note='Trusted: SimPool/SimClock/SimFS stubs; kill = immediate process end (user-space buffers lost, completed writes kept); power loss/EIO/ENOSPC not injected (no property constrains them); a kill inside a checkpoint write is counted (torn_checkpoint_observed), not reported.'),
 'C09': dict(engine='pipe', design='§4 C09', technique='deterministic simulation: families of runs of one workload across pool sizes x seeded completion orders x stalls x hash seeds x fresh processes x restart-after-kill, output-multiset equality',
   text='For each generated workload (file + arguments incl. focus set, transformers, multi-value expansion, sub-features, interaction order, 3MR, noise controls, binding caps, stratified sub-sampling) a family of simulated runs: pool sizes {1,2,3,4,8,16} x service-time regimes (instant, ms, seconds, mixed, one stalled worker, reversed completion) x 3-4 interpreter hash seeds x a member that is killed and restarted in the same directory x identical repeats x optional second task in the same process; all members must write the same multiset of (FeatureA, FeatureB, Score) rows, identical repeats must also be byte-identical with equal trace digests. Thorough tier cross-checks the SimPool against the real pathos pool.',
   note='Trusted: SimPool worker-state partition (RNG streams, outrank.* module containers) emulates forked workers; C-level state inside numba is shared between simulated workers (documented limit).'),
 'C13': dict(engine='pipe+hist', design='§4 C13', technique='deterministic simulation: batch-split histories of the real process-global statistics in forked processes against exact recomputation; split families through the full task',
   text='hist: the real compute_coverage / compute_cardinalities / compute_value_counts in a forked process fed arbitrary compositions of a row sequence (thresholds 1-5, missing-symbol sets, counter bounds from 2), checked after every batch against exact recomputation, and all compositions of one sequence compared. pipe: full ranking / identify_rare_values tasks; annotations (cardinality; coverage), value_repetitions.json and rare_values.tsv vs exact recomputation, under pool schedules, kill + restart and a second task in the same process (both scope readings - per task / per process - accepted). The property itself has no fault dimension (stated in DESIGN).',
   note='Trusted: exact models in sim/refmodel/stats.py; a cardinality deficit is tolerated only when the repo\'s own 32-bit value hash shows a collision of plausible size (the statement allows 32-bit hash collisions).'),
 'C14': dict(engine='hist', design='§4 C14', technique='deterministic simulation: seeded insertion histories (order, duplication, warm-up boundary crossing) on the real sketch in forked processes against an exact set',
   text='Seeded bulk-operation histories on the real HyperLogLogWCache with its real parameters (add new, re-add old/recent/boundary values, permuted orders, probes), biased to end at 2^18-1 / 2^18 / 2^18+1 distinct values and reaching 2^19..2^21 in the thorough tier; at every probe: exact when distinct <= 2^18, within 2% up to 2^21, re-adding seen values never changes the size, permutations agree in the exact range. A scaled-knob mode (m = 2^8..2^12) crosses the switch thousands of times and asserts exactness and duplicate-blindness only. A second sketch alive in the same process (crossing its own switch), a simulated wall clock that only moves on tick operations, and a swarm-selected poison allocator expose shared state, time-based caching and uninitialised registers. The property itself has no fault dimension (stated in DESIGN).',
   note='Trusted: exact-set model; values are hex digests as in the pipeline plus arbitrary strings; hash seeds varied per zygote.'),
 'C15': dict(engine='hist', design='§4 C15', technique='deterministic simulation: seeded update histories x sketch RNG seeds x interpreter hash seeds on the real sketches in forked processes against an exact counter',
   text='Seeded streams of (item, weight) over ints and strings on the real CountMinSketch (depth 1-8, width 1-2^15, emphasis on narrow sketches; np.random state and PYTHONHASHSEED are job parameters because the row seeds and numba\'s str hash depend on them) and PrimitiveConstrainedCounter; after every step: true <= query <= total for seen and unseen items, every row sums to total; counter never over-counts, exact below the bound, never tracks more than bound values; several sketches / counters alive in one process, simulated clock ticks and poison allocator swarm-selected. The property itself has no fault dimension (stated in DESIGN).',
   note='Trusted: exact weighted counter model; totals kept below 2^31 (int32 matrix); ints restricted to int64 (numba typing).'),
}

NOT_APPLICABLE = {
 'C01': 'pure function of two integer vectors: no schedule, clock, I/O, fault, crash point or carried state for a simulator to decide',
 'C02': 'pure function of the vectors and the relabelling; no schedule/fault dimension (its defect was nevertheless found and fixed through the C04/C05 simulations)',
 'C03': 'pure function of two vectors; the ranking corollary quantifies over generator seeds only',
 'C10': 'compute_combined_features is a pure function of the frame and the tuple list; its only stateful part (the capped sampler) is C07',
 'C11': 'each constructor is a pure function of frame and flags; nothing in the statement depends on schedule, time, I/O or history',
 'C12': 'pure evaluation of formula strings on a numeric column',
 'C16': 'each parser is a pure function of one line; stream-level effects are absorbed by Python\'s io layer before repo code sees a line (CSV rows entering batches are cross-checked by C08\'s workload)',
 'C17': 'pure function of three dictionaries',
 'C18': 'pure transformation of one TSV file into another',
 'C19': 'pure function of (arguments, seed); generate_data reseeds on entry',
 'C20': 'pure functions of (array, arguments, RNG stream); no I/O, time or concurrency',
}

def main():
    props = [json.loads(l)['id'] for l in open(os.path.join(V, 'properties.jsonl'))]
    checks = []
    for pid in props:
        if pid in CLAIMED and os.path.exists(os.path.join(V, 'checks', pid.lower() + '.py')):
            c = CLAIMED[pid]
            checks.append({
                'property_id': pid,
                'quick_cmd': f'./check {pid} --tier quick',
                'thorough_cmd': f'./check {pid} --tier thorough',
                'evidence_file': f'evidence/{pid}.json',
                'replay_cmd_template': f'./check {pid} --replay {{path}}',
                'engine': c['engine'],
                'level_claimed': {'category': 'exploration', 'text': c['text'], 'design_ref': c['design']},
                'level_note': c['note'],
                'technique': c['technique'],
            })
    claimed_ids = {c['property_id'] for c in checks}
    na = [{'property_id': p, 'reason': r} for p, r in NOT_APPLICABLE.items()]
    pending = [p for p in props if p not in claimed_ids and p not in NOT_APPLICABLE]
    m = {
        'version': 1,
        'setup_cmd': 'bash ./setup.sh',
        'hooks': {
            'guard': 'OUTRANK_VERIF',
            'enable': 'no source hooks: every seam is an injected argument, a module attribute or an interpreter/allocator API; checks import /repo\'s working tree directly (VERIF_REPO overrides the path)',
            'baseline_off_cmd': 'cd /repo && /venv/bin/python -m pytest -ra -q -p no:cacheprovider --timeout=900 --continue-on-collection-errors',
            'source_commits': [],
            'add_only': True,
        },
        'engines': [
            {'name': 'alloc', 'path': 'sim/engines/alloc_engine.py', 'serves_properties': ['C04'], 'kind_free_text': 'real numba estimator in forked simulated processes under a poisoning allocator and seeded allocation history'},
            {'name': 'pipe', 'path': 'sim/engines/pipe_engine.py', 'serves_properties': ['C05', 'C06', 'C07', 'C08', 'C09', 'C13'], 'kind_free_text': 'the real ranking task end to end under SimPool (seeded scheduler), SimClock (virtual time), SimFS (crash points) and per-zygote hash seeds'},
            {'name': 'hist', 'path': 'sim/engines/hist_engine.py', 'serves_properties': ['C07', 'C13', 'C14', 'C15'], 'kind_free_text': 'seeded operation histories on the real process-global structures in forked simulated processes against exact reference models'},
        ],
        'checks': checks,
        'not_applicable': na,
        'notes': 'Technique: deterministic simulation with fault injection (see DESIGN.md). Exit 0 ok / 1 VIOLATION / 2 HARNESS-ERROR.'
                 + (' Checks still being built (claimed in DESIGN.md, not yet registered): ' + ', '.join(pending) if pending else ''),
    }
    with open(os.path.join(V, 'MANIFEST.json'), 'w') as fh:
        json.dump(m, fh, indent=1)
    try:
        import jsonschema
        jsonschema.validate(m, json.load(open('/root/.vp/MANIFEST.schema.json')))
        print('MANIFEST valid;', len(checks), 'checks;', len(na), 'not applicable; pending', pending)
    except ImportError:
        print('jsonschema not available in this interpreter; wrote MANIFEST without validation')

if __name__ == '__main__':
    main()
