"""C09 - results independent of worker count and scheduling, and reproducible (engine `pipe`).

For each generated workload a FAMILY of simulated runs is executed: pool sizes x service-time
regimes (instant, ms, seconds, mixed, one stalled worker, reversed completion) x interpreter hash
seeds (different zygotes) x identical repeats.  All members must write the same multiset of
(FeatureA, FeatureB, Score) rows; identical repeats must also agree byte for byte and in their trace
digests."""
from __future__ import annotations

import copy
import json
import random
import time

from checks import common, pipe_common

POOLS = [1, 2, 3, 4, 8, 16]
MODES = ['instant', 'ms', 'seconds', 'mixed', 'stall-one', 'reverse']


def pick_flags(rng, wl, cli):
    hdr, kinds, label = wl['header'], wl['kinds'], wl['label']
    feats = [h for h in hdr if h != label]
    flags = []
    k = rng.choice([0, 1, 1, 2, 3])
    options = ['focus', 'multi', 'sub', 'inter', '3mr', 'noise', 'cap', 'strat', 'transformers', 'pairwise']
    rng.shuffle(options)
    for o in options[:k]:
        if o == 'focus' and len(feats) >= 2:
            sub = rng.sample(feats, rng.randrange(2, len(feats) + 1))
            cli['feature_set_focus'] = ','.join(sub)
            flags.append(o)
        elif o == 'multi' and 'multi' in kinds:
            cli['explode_multivalue_features'] = hdr[kinds.index('multi')]
            flags.append(o)
        elif o == 'sub':
            low = [h for h, kd in zip(hdr, kinds) if kd in ('lowcard', 'balanced-binary', 'noisy-label') and h != label]
            if len(low) >= 2:
                a, b = rng.sample(low, 2)
                cli['subfeature_mapping'] = a + rng.choice(['->', '<->']) + b
                flags.append(o)
        elif o == 'inter' and 2 <= len(feats) <= 6:
            cli['interaction_order'] = rng.choice([2, 2, 3]) if len(feats) >= 3 else 2
            flags.append(o)
        elif o == '3mr' and len(feats) >= 2:
            cli['heuristic'] = 'MI-numba-3mr'
            if len(feats) <= 5 and rng.random() < 0.6:
                cli['interaction_order'] = 2
            flags.append(o)
        elif o == 'noise':
            cli['include_noise_baseline_features'] = 'True'
            flags.append(o)
        elif o == 'cap':
            cli['combination_number_upper_bound'] = rng.choice([1, 2, 3, 5])
            flags.append(o)
        elif o == 'strat':
            cli['mi_stratified_sampling_ratio'] = rng.choice([0.1, 0.3, 0.53, 0.9])
            flags.append(o)
        elif o == 'transformers' and 'numeric' in kinds and hdr[kinds.index('numeric')] != label:
            wl['source'] = 'ob-csv'
            wl['float_cols'] = [h for h, kd in zip(hdr, kinds) if kd == 'numeric' and h != label][:2]
            cli['transformers'] = rng.choice(['default', 'minimal'])
            cli['target_ranking_only'] = 'True'
            flags.append(o)
        elif o == 'pairwise':
            cli['target_ranking_only'] = 'False'
            flags.append(o)
    if 'transformers' in flags:
        # keep the constructed feature space small: no interaction / relation features on top of transformed ones
        cli.pop('interaction_order', None)
        if cli.get('heuristic') == 'MI-numba-3mr':
            cli['heuristic'] = 'MI-numba-randomized'
        flags[:] = [f for f in flags if f not in ('inter', '3mr')]
    if 'focus' in flags and 'multi' in flags and cli['explode_multivalue_features'] not in cli['feature_set_focus'].split(','):
        cli['feature_set_focus'] += ',' + cli['explode_multivalue_features']
    if 'focus' in flags and 'sub' in flags:
        for nm in cli['subfeature_mapping'].replace('<->', '->').split('->'):
            if nm not in cli['feature_set_focus'].split(','):
                cli['feature_set_focus'] += ',' + nm
    if 'focus' in flags and 'transformers' in flags:
        for nm in wl.get('float_cols', []):
            if nm not in cli['feature_set_focus'].split(','):
                cli['feature_set_focus'] += ',' + nm
    return flags


PROFILE = {
    'oracles': [],
    'heuristics': ['MI-numba-randomized'] * 4 + ['max-value-coverage', 'MI'],
    'minibatch': [4, 6, 10, 25],
    'batches': [1, 2, 2, 3],
    'delta': [0, 1],
    'ncols': [3, 4, 5, 6],
    'malformed': [0.0, 0.0, 0.1],
    'target_only': ['True', 'True', 'False'],
    'subsampling': [1, 1, 2],
    'poison': 0.0,
    'more_runs': 0.12,
    # columns that the construction flags can act on are generated more often than in the other profiles
    'colopts': {'kind': ['lowcard', 'lowcard', 'lowcard', 'midcard', 'id', 'constant', 'sparse', 'numeric', 'numeric', 'noisy-label', 'balanced-binary',
                         'multi', 'multi', 'multi', 'numeric-spellings']},
}


def gen_family(rng, hashseeds, tier):
    if tier == 'thorough' and rng.random() < 0.06:
        return gen_large_family(rng, hashseeds)
    if rng.random() < 0.12:
        # transformer families: ob-csv source with >= 2 float-typed columns
        base = pipe_common.gen_spec(rng, dict(PROFILE, ncols=[3, 4], colopts={'kind': ['numeric', 'numeric', 'numeric', 'lowcard']}, heuristics=['MI-numba-randomized']))
        base.pop('poison', None)
        wl, cli = base['workload'], base['cli']
        wl['source'] = 'ob-csv'
        wl['float_cols'] = [h for h, kd in zip(wl['header'], wl['kinds']) if kd == 'numeric' and h != wl['label']]
        flags = []
        if wl['float_cols']:
            cli['transformers'] = rng.choice(['default', 'minimal', 'minimal', 'default,minimal'])
            cli['target_ranking_only'] = rng.choice(['True', 'False'])
            flags = ['transformers'] + (['pairwise'] if cli['target_ranking_only'] == 'False' else [])
            if rng.random() < 0.4:
                cli['combination_number_upper_bound'] = rng.choice([2, 3, 5, 9])
                flags.append('cap')
    else:
        base = pipe_common.gen_spec(rng, PROFILE)
        base.pop('poison', None)
        flags = pick_flags(rng, base['workload'], base['cli'])
    members = []
    pools = rng.sample(POOLS, 4 if tier == 'quick' else 6)
    if 1 not in pools:
        pools[0] = 1
    hs_cycle = list(hashseeds)
    rng.shuffle(hs_cycle)
    i = 0
    for p in pools:
        for mode in rng.sample(MODES, 2 if tier == 'quick' else 3):
            m = copy.deepcopy(base)
            m['cli']['num_threads'] = p
            m['service_mode'] = mode
            m['seed'] = rng.randrange(2 ** 40)
            m['hashseed'] = hs_cycle[i % len(hs_cycle)]
            m['fs'] = {'write_through': True, 'short_reads': False}
            if rng.random() < 0.25:
                m['poison'] = {'mode': 1, 'seed': rng.randrange(1, 2 ** 63), 'name': 'stream'}
            if rng.random() < 0.25:
                m['tty'] = True                # stdout attached to a terminal
            i += 1
            members.append(m)
    # a run that is killed at a seeded point and started again in the same directory is a "repeated fresh run" too:
    # its second process must write what every other member writes
    rk = copy.deepcopy(members[rng.randrange(len(members))])
    rk['phases'] = [{'crash': [rng.choice(['batch-return', 'closed-w:ranking_checkpoint_tmp.tsv', 'write:ranking_checkpoint_tmp.tsv', 'sleep', 'chunk',
                                           'opened-w:pairwise_ranks.tsv', 'write:pairwise_ranks.tsv', 'remove']), rng.choice([1, 1, 2, 3])]}, {}]
    members.append(rk)
    # identical repeat of one member (fresh process, same hash seed, same seed)
    rep_of = rng.randrange(len(members) - 1)
    members.append(copy.deepcopy(members[rep_of]))
    return {'base': base, 'flags': flags, 'members': members, 'repeat_of': rep_of}


def gen_large_family(rng, hashseeds):
    """Thorough tier only: one mini-batch of ~12000 rows with an identifier-like column (~8500 distinct values), pairwise mode - sizes at which
    value-count thresholds inside the kernels (thousands of distinct values) are crossed."""
    prof = dict(PROFILE, minibatch=[12000], batches=[1], delta=[0], ncols=[3], malformed=[0.0], subsampling=[1], target_only=['False'],
                heuristics=['MI-numba-randomized'], colopts={'kind': ['id', 'lowcard', 'midcard']}, more_runs=0.0)
    base = pipe_common.gen_spec(rng, prof)
    base.pop('poison', None)
    wl = base['workload']
    j = [k for k, h in enumerate(wl['header']) if h != wl['label']][-1]      # last feature column: it is the conditioning side of (other, id) pairs
    for i, ln in enumerate(wl['lines']):
        if ln['ok']:
            ln['cells'][j] = f'id{(i * 7919) % 8501:06d}'          # identifier-like: ~8500 distinct values, many of them seen twice
    wl['kinds'][j] = 'id'
    members = []
    for i, p in enumerate([1, 2, 4, 16]):
        m = copy.deepcopy(base)
        m['cli']['num_threads'] = p
        m['service_mode'] = rng.choice(MODES)
        m['seed'] = rng.randrange(2 ** 40)
        m['hashseed'] = hashseeds[i % len(hashseeds)]
        m['fs'] = {'write_through': True, 'short_reads': False}
        m['timeout_s'] = 170           # the estimator is O(rows x distinct values): these runs legitimately take tens of seconds
        members.append(m)
    members.append(copy.deepcopy(members[0]))
    return {'base': base, 'flags': ['large-batch'], 'members': members, 'repeat_of': 0}


def compare_family(fam, values):
    """-> (cls, detail, (i, j)) or None"""
    ref_i = next((i for i, v in enumerate(values) if v is not None), None)
    if ref_i is None:
        return None
    ref = allranks(values[ref_i])
    ref_out = outcome(values[ref_i])
    for j, v in enumerate(values):
        if v is None:
            continue
        if outcome(v) != ref_out:
            mi, mj = fam['members'][ref_i], fam['members'][j]
            return ('outcome-differs', {'member_a': member_summary(mi), 'member_b': member_summary(mj), 'outcome_a': ref_out, 'outcome_b': outcome(v)}, (ref_i, j))
        if allranks(v) != ref:
            a, b = ref or [], allranks(v) or []
            diff = sorted(set(map(tuple, a)) ^ set(map(tuple, b)))[:4]
            mi, mj = fam['members'][ref_i], fam['members'][j]
            return ('ranks-differ', {'member_a': member_summary(mi), 'member_b': member_summary(mj), 'rows_a': len(a), 'rows_b': len(b), 'difference': diff}, (ref_i, j))
    r = fam['repeat_of']
    a, b = values[r], values[-1]
    if a is not None and b is not None:
        if a.get('digest') != b.get('digest') or a.get('files') != b.get('files'):
            which = [f for f in set(a.get('files', {})) | set(b.get('files', {})) if a.get('files', {}).get(f) != b.get('files', {}).get(f)]
            return ('repeat-differs', {'member': member_summary(fam['members'][r]), 'digest_a': a.get('digest'), 'digest_b': b.get('digest'), 'files_differing': which}, (r, len(values) - 1))
    return None


def allranks(v):
    """Rows written by every task the simulated process ran (a long-lived interpreter may run several), flattened."""
    if v.get('ranks_all') is None:
        return v.get('ranks')
    out = []
    for i, rk in enumerate(v['ranks_all']):
        out += [[f'task{i + 1}'] + list(r) for r in (rk or [])] if rk is not None else [[f'task{i + 1}', None]]
    return out


def outcome(v):
    """How the task ended: a crash that every member shares is not a scheduling / reproducibility issue
    (it is reported by the checks of the property it breaks, e.g. C08); a member-dependent one is."""
    if v.get('status') == 'exception':
        return ('exception', pipe_common.exception_key(v.get('trace', '')))
    return (v.get('status'),)


def member_summary(m):
    out = {'num_threads': m['cli']['num_threads'], 'service_mode': m['service_mode'], 'seed': m['seed'], 'hashseed': m['hashseed'], 'poison': (m.get('poison') or {}).get('name'),
           'tty': bool(m.get('tty'))}
    if m.get('phases'):
        out['killed_at_then_restarted'] = m['phases'][0].get('crash')
    return out


def final_phase(r):
    """The process whose output counts: the only one, or the restarted one after a kill."""
    return pipe_common.phase_values(r)[-1]


def run_pair(pool, a, b):
    rs = pool.run([pipe_common.job_of(a), pipe_common.job_of(b)])
    vals = []
    for r in rs:
        try:
            ph = final_phase(r)
        except pipe_common.Harness:
            return None
        if ph['proc']['status'] != 'returned':
            return None
        vals.append(ph['proc']['value'])
    return vals


def shrink_pair(pool, a, b, cls, wall=45.0):
    """Shrink the shared part (workload, cli) of two members while they still disagree."""
    keep = ('num_threads',)
    t0 = time.time()

    def differs(va, vb):
        if va is None or vb is None:
            return False
        if cls == 'ranks-differ':
            return allranks(va) != allranks(vb) and va.get('status') == vb.get('status') == 'completed'
        if cls == 'outcome-differs':
            return outcome(va) != outcome(vb)
        return va.get('digest') != vb.get('digest') or va.get('files') != vb.get('files')
    cur_a, cur_b = a, b
    # isolate the deciding dimension: make b equal to a in every member-specific knob that is not needed
    if cls in ('ranks-differ', 'outcome-differs') and not (cur_a.get('phases') or cur_b.get('phases')):
        for knob in ('poison', 'tty', 'seed', 'service_mode', 'num_threads', 'hashseed'):
            nb = copy.deepcopy(cur_b)
            if knob == 'num_threads':
                if nb['cli']['num_threads'] == cur_a['cli']['num_threads']:
                    continue
                nb['cli']['num_threads'] = cur_a['cli']['num_threads']
            elif knob == 'poison':
                if nb.get('poison') == cur_a.get('poison'):
                    continue
                if 'poison' in cur_a:
                    nb['poison'] = cur_a['poison']
                else:
                    nb.pop('poison', None)
            else:
                if nb.get(knob) == cur_a.get(knob):
                    continue
                nb[knob] = cur_a.get(knob)
            vals = run_pair(pool, cur_a, nb)
            if vals is not None and differs(vals[0], vals[1]):
                cur_b = nb
    for _ in range(25):
        if time.time() - t0 > wall:
            break
        cands = pipe_common.shrink_candidates(cur_a)[:100]
        pairs = []
        for c in cands:
            same_pool = cur_a['cli'].get('num_threads') == cur_b['cli'].get('num_threads')
            if (not same_pool and c['cli'].get('num_threads') != cur_a['cli'].get('num_threads')) or \
                    (cur_a.get('service_mode') != cur_b.get('service_mode') and c.get('service_mode') != cur_a.get('service_mode')) or ('poison' in cur_a) != ('poison' in c):
                continue      # knobs in which the two members differ stay
            cb = copy.deepcopy(c)
            if cls == 'repeat-differs':
                pairs.append((c, cb))          # the two members of a repeat are identical by definition and must stay so
                continue
            if cur_a['cli'].get('num_threads') != cur_b['cli'].get('num_threads'):
                cb['cli']['num_threads'] = cur_b['cli']['num_threads']
            for k in ('service_mode', 'seed', 'hashseed', 'tty'):
                cb[k] = cur_b.get(k)
            if cur_b.get('phases'):
                cb['phases'] = copy.deepcopy(cur_b['phases'])
            else:
                cb.pop('phases', None)
            if 'poison' in cur_b:
                cb['poison'] = cur_b['poison']
            else:
                cb.pop('poison', None)
            pairs.append((c, cb))
        if not pairs:
            break
        jobs = []
        for ca, cb in pairs:
            jobs += [pipe_common.job_of(ca), pipe_common.job_of(cb)]
        rs = pool.run(jobs)
        better = []
        for k, (ca, cb) in enumerate(pairs):
            vals = []
            for r in rs[2 * k:2 * k + 2]:
                try:
                    ph = final_phase(r)
                    vals.append(ph['proc']['value'] if ph['proc']['status'] == 'returned' else None)
                except pipe_common.Harness:
                    vals.append(None)
            if differs(vals[0], vals[1]):
                better.append((ca, cb))
        if not better:
            break
        better.sort(key=lambda p: pipe_common.spec_size(p[0]))
        if pipe_common.spec_size(better[0][0]) >= pipe_common.spec_size(cur_a):
            break
        cur_a, cur_b = better[0]
    return cur_a, cur_b


RULE = ('family = one generated workload (CSV + arguments; 0-3 of: focus set, multi-value expansion, sub-features, interaction order 2/3, 3MR, noise controls, binding cap, stratified '
        'sub-sampling, transformers on an ob-csv source, pairwise mode) executed as 9 (quick) / 19 (thorough) simulated processes: pool sizes from {1,2,3,4,8,16} x service-time regimes '
        '{instant, ms, seconds, mixed, one stalled worker, reversed completion} x hash seeds rotated over the zygotes x 25% poison allocator, plus one member that is killed at a seeded point and restarted in the same directory, plus one identical repeat.  Oracle: equal multisets of '
        '(FeatureA, FeatureB, repr(Score)) rows across all members; the repeat must have the identical trace digest and byte-identical output files.  '
        'distinct_nontrivial = distinct (completion-order, chunk->worker) interleaving hashes over all members; families with >= 2 different interleavings are counted in probes.')


def run(args):
    rep = common.Report('C09', args, 'pipe')
    rep.rule = RULE
    rep.assumptions = ['SimPool worker-state partition emulates forked workers (RNG streams, outrank.* module containers); C-level state inside numba is shared (documented limit)',
                       'combination_estimation_counts.json key order follows set iteration and is compared only between identical repeats']
    if args.replay:
        return replay(args)
    budget = args.budget or (45 if args.tier == 'quick' else 900)
    hs = [0, 1, 2, 3] if args.tier == 'quick' else [0, 1, 2, 3, 4, 5, 6, 7]
    pool = common.ZygotePool(hashseeds=hs)
    rep.hashseeds.update(hs)
    rng = random.Random(f'C09/{args.seed}')
    stop = False
    rounds = 0
    fam_per_round = 12
    t_start = time.time()
    while (rounds == 0 or time.time() - t_start < budget) and not stop:
        rounds += 1
        fams = [gen_family(rng, hs, args.tier) for _ in range(fam_per_round)]
        jobs, owner = [], []
        for fi, f in enumerate(fams):
            for m in f['members']:
                jobs.append(pipe_common.job_of(m))
                owner.append(fi)
        res = pool.run(jobs)
        pos = 0
        for fi, f in enumerate(fams):
            rs = res[pos:pos + len(f['members'])]
            pos += len(f['members'])
            values = []
            fam_vio = None
            for m, r in zip(f['members'], rs):
                phs = [final_phase(r)]
                if m.get('phases'):
                    first = pipe_common.phase_values(r)[0]['proc']
                    if first['status'] == 'returned' and first['value'].get('status') == 'crashed':
                        rep.add_counts(rep.fault_counts, {'restart_dirty_disk': 1, 'crash@' + str(m['phases'][0]['crash'][0]).split(':')[0]: 1})
                    else:
                        rep.add_counts(rep.probes, {'crash_point_not_reached(rerun in used directory)': 1})
                vio, other, harness = pipe_common.classify_phase('C09', m, phs[0])
                if harness:
                    raise common.HarnessError(harness + ' spec=' + json.dumps(pipe_common.spec_summary(m), default=repr)[:800])
                rep.evaluations += 1
                rep.add_counts(rep.other_obs, other)
                if phs[0]['proc']['status'] == 'returned':
                    v = phs[0]['proc']['value']
                    pipe_common.record_run(rep, m, v)
                    values.append(v)
                    for sig in v.get('interleaving', []):
                        rep.distinct.add(sig)
                else:
                    values.append(None)
                vio = [x for x in vio if x[0] != 'task-exception']
                if vio and fam_vio is None:
                    fam_vio = (m, vio[0])
                if phs[0]['proc']['status'] == 'returned' and phs[0]['proc']['value'].get('status') == 'exception':
                    rep.add_counts(rep.other_obs, {'task-exception shared by the family: ' + pipe_common.exception_key(phs[0]['proc']['value'].get('trace', ''))[:90]: 1})
            for fl in f['flags']:
                rep.add_counts(rep.probes, {'flag:' + fl: 1})
            if len({tuple(v.get('interleaving', [])) for v in values if v}) >= 2:
                rep.add_counts(rep.probes, {'families_with_different_interleavings': 1})
            rep.add_counts(rep.probes, {'families': 1})
            rep.sample({'flags': f['flags'], 'cli': f['base']['cli'], 'columns': f['base']['workload']['header'], 'rows': len(f['base']['workload']['lines']),
                        'members': [member_summary(m) for m in f['members']]})
            if stop:
                continue
            if fam_vio is not None:
                m, vio = fam_vio
                stop = pipe_common.handle_violation(pool, rep, 'C09', m, vio) and not args.keep_going
                continue
            cmp = compare_family(f, values)
            if cmp is not None:
                cls, detail, (i, j) = cmp
                a, b = f['members'][i], f['members'][j]
                sa, sb = shrink_pair(pool, a, b, cls)
                vals = run_pair(pool, sa, sb)
                if vals is not None:
                    c2 = compare_family({'members': [sa, sb], 'repeat_of': 0}, vals) if cls == 'ranks-differ' else None
                    if c2:
                        detail = c2[1]
                new = rep.violation(cls, cls + ':' + ','.join(sorted(f['flags'])),
                                    {'observed': detail, 'flags': f['flags'], 'spec_a': pipe_common.spec_summary(sa), 'member_b': member_summary(sb)},
                                    {'pair': [sa, sb], 'flags': f['flags'], 'seed': args.seed})
                stop = new and not args.keep_going
    if args.tier == 'thorough' and not stop:
        fidelity(pool, rep, rng)
    rep.extra['rounds'] = rounds
    rep.extra['real_components'] = ['outrank.__main__.main -> full ranking task, all feature constructors, heuristics and numba kernels (from /repo)']
    rep.extra['stub_components'] = ['SimPool for pathos ProcessingPool', 'SimClock', 'SimFS interposer', 'PoisonAllocator (25% of members)']
    code = rep.finish()
    pool.close()
    return code


def fidelity(pool, rep, rng):
    """Stub fidelity (DESIGN 4.5): same workloads with the REAL pathos pool must give the SimPool's output."""
    specs = []
    for _ in range(5):
        s = pipe_common.gen_spec(rng, dict(PROFILE, batches=[2], malformed=[0.0]))
        s.pop('poison', None)
        s['service_mode'] = 'instant'
        specs.append(s)
    jobs = []
    for s in specs:
        for p in (1, 2, 4):
            sim = copy.deepcopy(s)
            sim['cli']['num_threads'] = p
            real = copy.deepcopy(sim)
            real['real_pool'] = True
            jobs += [pipe_common.job_of(sim), pipe_common.job_of(real, timeout=120)]
    res = pool.run(jobs)
    for k in range(0, len(res), 2):
        a = pipe_common.phase_values(res[k])[0]['proc']
        b = pipe_common.phase_values(res[k + 1])[0]['proc']
        if a['status'] != 'returned' or b['status'] != 'returned':
            raise common.HarnessError(f'stub-fidelity run did not return: {a["status"]} / {b["status"]} {str(b.get("trace", ""))[-500:]}')
        if a['value'].get('ranks') != b['value'].get('ranks') or a['value'].get('files', {}).get('pairwise_ranks.tsv') != b['value'].get('files', {}).get('pairwise_ranks.tsv'):
            raise common.HarnessError('SimPool and the real pathos pool disagree on pairwise_ranks.tsv - harness defect, not a property violation')
        rep.add_counts(rep.probes, {'stub_fidelity_pairs_identical': 1})


def replay(args):
    with open(args.replay) as fh:
        obj = json.load(fh)
    if 'pair' not in obj:
        rep = common.Report('C09', args, 'pipe')
        return pipe_common.replay('C09', args, rep)
    a, b = obj['pair']
    ok = False
    for attempt in range(1, 6):       # see pipe_common.replay: uncontrolled address / entropy dependence may need a retry
        pool = common.ZygotePool(hashseeds=sorted({a.get('hashseed') or 0, b.get('hashseed') or 0}), width=2)
        vals = run_pair(pool, a, b)
        pool.close()
        ok = _pair_differs(obj, vals)
        if ok:
            break
    if ok:
        print(f"REPRODUCED class={obj['class']} (attempt {attempt})")
        print(f'VIOLATION property=C09 replay={args.replay}')
        return 1
    print('NOT-REPRODUCED (5 attempts)')
    return 0


def _pair_differs(obj, vals):
    ok = False
    if obj['class'] == 'repeat-differs' and obj['pair'][0] != obj['pair'][1]:
        return False               # not a repeat: a malformed replay file must not raise an alarm
    if vals is not None:
        if obj['class'] == 'ranks-differ':
            ok = allranks(vals[0]) != allranks(vals[1])
        elif obj['class'] == 'outcome-differs':
            ok = outcome(vals[0]) != outcome(vals[1])
        else:
            ok = vals[0].get('digest') != vals[1].get('digest') or vals[0].get('files') != vals[1].get('files')
    return ok


if __name__ == '__main__':
    common.main_wrapper(run)
