"""Reference scorers (pure Python, float64).  The only place where 'what a heuristic should
return' is written down.  Inputs are lists of hashable, mutually comparable values."""
from __future__ import annotations

import math
from collections import Counter


def codes(values):
    """Category coding as pandas does it: dense ranks of the sorted distinct values."""
    m = {v: i for i, v in enumerate(sorted(set(values)))}
    return [m[v] for v in values]


def entropy(v):
    n = len(v)
    return -sum(c / n * math.log(c / n) for c in Counter(v).values())


def cond_entropy(y, x):
    """H(Y | X), nats."""
    n = len(y)
    joint = Counter(zip(x, y))
    cx = Counter(x)
    return -sum(c / n * math.log(c / cx[xv]) for (xv, _), c in joint.items())


def mi(y, x):
    return entropy(y) - cond_entropy(y, x)


def corrected(y, x):
    """H(Y*|X) - H(Y|X); inside each group of rows sharing an X value Y* reads Y at the row position
    advanced cyclically by that group's size.  Plain MI when the vectors are element-wise identical."""
    if list(y) == list(x):
        return mi(y, x)
    n = len(y)
    cx = Counter(x)
    ystar = [y[(i + cx[x[i]]) % n] for i in range(n)]
    # groups of size 1 contribute 0 to both terms
    return cond_entropy(ystar, x) - cond_entropy(y, x)


def max_coverage(a, b):
    n = len(a)
    return max(Counter(zip(a, b)).values()) / n


def max_coverage_has_bucket_collision(a, b, size=10 ** 6):
    """True when two different joint values share a bucket of the documented pair hash, so that the
    bucket maximum can exceed the true joint maximum (such cases are skipped and counted)."""
    buckets = {}
    for pair in set(zip(a, b)):
        k = (pair[0] * 1471343 - pair[1]) % size
        if k in buckets:
            return True
        buckets[k] = pair
    return False


def pearson(a, b):
    n = len(a)
    ma, mb = sum(a) / n, sum(b) / n
    sa = math.sqrt(sum((x - ma) ** 2 for x in a))
    sb = math.sqrt(sum((x - mb) ** 2 for x in b))
    if sa == 0 or sb == 0:
        return float('nan')
    return sum((x - ma) * (y - mb) for x, y in zip(a, b)) / (sa * sb)


def ami(a, b):
    from sklearn.metrics import adjusted_mutual_info_score   # the property is about dispatch, not AMI's formula
    return float(adjusted_mutual_info_score(a, b))


def reference_score(heuristic, first, second):
    """Score of `first` against conditioning target `second` (coded vectors)."""
    if heuristic in ('MI', 'MI-numba-3mr'):
        return mi(first, second)
    if heuristic == 'MI-numba-randomized':
        return corrected(first, second)
    if heuristic == 'max-value-coverage':
        return max_coverage(first, second)
    if heuristic == 'correlation-Pearson':
        return pearson(first, second)
    if heuristic == 'AMI':
        return ami(first, second)
    if heuristic == 'Constant':
        return 0.0
    raise KeyError(heuristic)


def close(a, b, tol=1e-4):
    if isinstance(a, float) and isinstance(b, float) and math.isnan(a) and math.isnan(b):
        return True
    try:
        return abs(a - b) <= tol * (1 + abs(b))
    except TypeError:
        return False
