"""Engine `hist`: seeded operation histories on the real process-global structures and sketches,
each history in its own forked simulated process, checked step by step against exact reference
models.  No fault dimension: the seams are the history (order, duplication, batch composition),
the process-global state carried between operations, the sketch RNG stream and the hash seed."""
from __future__ import annotations

import hashlib
import os
import random
import shutil
import tempfile
import types

import numpy as np
import pandas as pd

import outrank.core_ranking as core_ranking
import outrank.core_utils as core_utils
from outrank.algorithms.sketches.counting_cms import CountMinSketch
from outrank.algorithms.sketches.counting_counters_ordinary import PrimitiveConstrainedCounter
from outrank.algorithms.sketches.counting_ultiloglog import HyperLogLogWCache

from sim import proc
from sim.alloc import alloc
from sim.engines import register
from sim.refmodel import aggregate, sampler, stats


def _warm_up():
    """Compile the numba paths of the count-min sketch once in the zygote (they are not cached on disk)
    without disturbing the process-global RNG stream a fresh interpreter would have."""
    st = np.random.get_state()
    try:
        c = CountMinSketch(2, 8)
        c.add(1)
        c.add('a')
        c.add(1, 2)
        c.add('a', 2)
        c.query(1)
        c.query('a')
    finally:
        np.random.set_state(st)


_warm_up()


class FakeClock:
    """Simulated wall clock for the hist engine: time.time / monotonic / perf_counter of the simulated process
    return a value that only moves when the history says so ('tick' operations)."""

    def __init__(self, start=1.7e9):
        import time as _t
        self.now = float(start)
        self._t = _t
        _t.time = lambda: self.now
        _t.monotonic = lambda: self.now - 1.6e9
        _t.perf_counter = lambda: self.now - 1.6e9
        _t.sleep = self.advance

    def advance(self, dt):
        self.now += max(0.0, float(dt))


class Unavailable(Exception):
    """The function under test no longer has the signature this driver knows (e.g. it gained a parameter).  The
    history cannot be driven directly; the property's pipeline part (which uses the repo's own call sites) still runs."""


def _call(fn, *args):
    try:
        return fn(*args)
    except TypeError as e:
        if e.__traceback__.tb_next is None:        # raised while binding the arguments, not inside fn
            raise Unavailable(f'{getattr(fn, "__name__", fn)}: {e}')
        raise


class _Pbar:
    def set_description(self, *a, **k):
        pass

    def update(self, *a, **k):
        pass


# ------------------------------------------------------------------------------------- C07 sampler
def _sampler_history(a):
    clock = FakeClock()
    alloc.install(a.get('poison'))
    lists = [[tuple(c) for c in lst] for lst in a['lists']]
    model = sampler.SamplerModel()
    problems = []
    binding = 0
    states = set()
    for step, op in enumerate(a['ops']):
        if op.get('tick'):
            clock.advance(op['tick'])
        cand = list(lists[op['list']])
        if op.get('perm') is not None:
            random.Random(op['perm']).shuffle(cand)
        cap = op['cap']
        ns = types.SimpleNamespace(combination_number_upper_bound=cap)
        try:
            out = _call(core_ranking.prior_combinations_sample, list(cand), ns)
        except Unavailable as e:
            return {'problems': [], 'unavailable': str(e), 'binding_steps': 0, 'states': [], 'steps': 0}
        out = [tuple(x) for x in out]
        for p in model.check_call(cand, cap, out):
            problems.append({'step': step, 'problem': p, 'cap': cap, 'size': len(cand)})
        actual = {k: v for k, v in core_ranking.GLOBAL_PRIOR_COMB_COUNTS.items() if v}
        want = {k: v for k, v in model.counts.items() if v}
        if actual != want:
            bad = next(k for k in set(actual) | set(want) if actual.get(k, 0) != want.get(k, 0))
            problems.append({'step': step, 'problem': 'reported counter differs from the number of selections', 'combination': list(bad),
                             'counter': actual.get(bad, 0), 'selections': want.get(bad, 0)})
        for li, lst in enumerate(lists):
            sp = model.spread(lst)
            if sp > 1:
                problems.append({'step': step, 'problem': f'evaluation counts of list {li} differ by {sp} (> 1)', 'cap': cap, 'size': len(lst)})
        if cap < len(cand):
            binding += 1
            states.add(hashlib.blake2b(repr(sorted(model.counts.get(c, 0) for c in cand)).encode(), digest_size=8).hexdigest())
        if problems:
            break
    return {'problems': problems[:3], 'binding_steps': binding, 'states': sorted(states)[:200], 'steps': len(a['ops'])}


@register('hist.sampler')
def job_sampler(job):
    out = []
    for h in job['args']['histories']:
        r = proc.run_in_fork(_sampler_history, (h,), timeout=30)
        out.append(r)
    return {'histories': out}


# ------------------------------------------------------------------------------------- C13 statistics
def _stats_history(a):
    clock = FakeClock()
    alloc.install(a.get('poison'))
    header = a['header']
    rows = a['rows']
    cuts = a['cuts']
    missing_symbols = a.get('missing_value_symbols', ',{}')
    thr = a.get('threshold', 1)
    bound = a.get('bound', 30000)
    args = types.SimpleNamespace(missing_value_symbols=missing_symbols, rare_value_count_upper_bound=thr, task='identify_rare_values',
                                 output_folder='out', max_unique_hist_constraint=bound)
    missing = set(missing_symbols.split(','))
    problems = []
    pos = 0
    seen = []
    cov_hist = {c: [] for c in header}
    crossing = 0
    for bi, size in enumerate(cuts):
        batch = rows[pos:pos + size]
        pos += size
        if not batch:
            continue
        if a.get('ticks'):
            clock.advance(a['ticks'][bi % len(a['ticks'])])
        seen += batch
        df = pd.DataFrame(batch, columns=header)
        try:
            cov = _call(core_ranking.compute_coverage, df, args)
            _call(core_ranking.compute_cardinalities, df, _Pbar(), bound)
            _call(core_ranking.compute_value_counts, df, args)
        except Unavailable as e:
            return {'problems': [], 'unavailable': str(e), 'final': {}, 'crossing_batches': 0, 'batches': 0}
        exp_cov = stats.coverage(batch, len(header), missing)
        for j, col in enumerate(header):
            got = cov[col] if col in cov else None
            if got is None or abs(got - exp_cov[j]) > 1e-9:
                problems.append({'batch': bi, 'kind': 'coverage', 'column': col, 'got': got, 'exact': exp_cov[j]})
            cov_hist[col].append(exp_cov[j])
            vals = [r[j] for r in seen]
            sk = core_ranking.GLOBAL_CARDINALITY_STORAGE.get(col)
            exact = stats.distinct_nonempty(vals)
            if sk is None or len(sk) != exact:
                hashed = len({core_utils.internal_hash(v) for v in vals if v})
                if not (sk is not None and hashed == len(sk) and exact - hashed <= max(1, exact * exact // 2 ** 30) and exact != hashed):
                    problems.append({'batch': bi, 'kind': 'cardinality', 'column': col, 'sketch': None if sk is None else len(sk), 'exact': exact})
            model = stats.BoundedCounter(bound)
            for v in vals:
                model.add(v)
            cnt = core_ranking.GLOBAL_COUNTS_STORAGE.get(col)
            if cnt is None or dict(cnt.default_counter) != dict(model.c):
                problems.append({'batch': bi, 'kind': 'value-counter', 'column': col, 'got_size': None if cnt is None else len(cnt.default_counter), 'model_size': len(model.c)})
        by_col = {col: [r[j] for r in seen] for j, col in enumerate(header)}
        exp_rare = stats.rare_values(by_col, thr)
        got_rare = dict(core_ranking.GLOBAL_RARE_VALUE_STORAGE)
        if got_rare != exp_rare:
            diff = sorted(set(got_rare.items()) ^ set(exp_rare.items()), key=repr)[:6]
            problems.append({'batch': bi, 'kind': 'rare-values', 'threshold': thr, 'difference': diff})
        if bi < len(cuts) - 1:
            from collections import Counter
            for j, col in enumerate(header):
                if any(c > thr for c in Counter(r[j] for r in seen).values()):
                    crossing += 1
                    break
        if problems:
            break
    final = {}
    if not problems:
        final['cardinality'] = {c: len(core_ranking.GLOBAL_CARDINALITY_STORAGE[c]) for c in header if c in core_ranking.GLOBAL_CARDINALITY_STORAGE}
        final['histogram'] = {c: {str(k): v for k, v in stats.repetition_histogram(core_ranking.GLOBAL_COUNTS_STORAGE[c].default_counter).items()}
                              for c in header if c in core_ranking.GLOBAL_COUNTS_STORAGE}
        final['rare'] = sorted([k[0], k[1], v] for k, v in core_ranking.GLOBAL_RARE_VALUE_STORAGE.items())
        # the report writer
        if a.get('write_report', True) and seen:
            tmp = tempfile.mkdtemp(prefix='rare-', dir=os.environ.get('SIM_BASE') or None)
            try:
                args.output_folder = tmp
                info = types.SimpleNamespace(column_types=set())
                crash = None
                try:
                    core_utils.summarize_rare_counts(dict(core_ranking.GLOBAL_RARE_VALUE_STORAGE), args, core_ranking.GLOBAL_CARDINALITY_STORAGE.copy(), info)
                except Exception as e:  # noqa: BLE001
                    import traceback
                    crash = {'error': f'{type(e).__name__}: {e}', 'trace': traceback.format_exc()[-600:]}
                rp = os.path.join(tmp, 'rare_values.tsv')
                if os.path.exists(rp):
                    with open(rp, encoding='utf-8', newline='') as fh:
                        hdr, body = aggregate.parse_tsv(fh.read())
                    try:
                        got = sorted([r[0], r[1], int(r[2])] for r in body if len(r) >= 3)
                    except ValueError:
                        got = [['<malformed row>'] + [r for r in body if len(r) >= 3 and not r[2].lstrip('-').isdigit()][0]]
                    if got != final['rare']:
                        problems.append({'kind': 'rare-report', 'written': got[:5], 'exact': final['rare'][:5], 'threshold': thr})
                    elif crash:
                        final['crash_after_report'] = crash['error']      # outside the statement (sparsity summary), counted only
                else:
                    problems.append({'kind': 'rare-report-missing', 'error': (crash or {}).get('error'), 'rare_entries': len(final['rare']),
                                     'trace': (crash or {}).get('trace')})
            finally:
                shutil.rmtree(tmp, ignore_errors=True)
    return {'problems': problems[:3], 'final': final, 'crossing_batches': crossing, 'batches': len([c for c in cuts if c])}


@register('hist.stats')
def job_stats(job):
    out = []
    for h in job['args']['histories']:
        out.append(proc.run_in_fork(_stats_history, (h,), timeout=40))
    return {'histories': out}


# ------------------------------------------------------------------------------------- C14 cardinality sketch
def hll_value(kind, i):
    if kind == 'hex':
        return hashlib.blake2b(str(i).encode(), digest_size=6).hexdigest()
    if kind == 'str':
        return f'v{i}'
    if kind == 'str-with-empty':
        return ['', '0', ' ', 'None', 'False'][i] if i < 5 else f'v{i}'          # the first values are the empty string and falsy-looking strings
    if kind == 'unicode':
        return f'ü{i}é中'
    if kind == 'dec8':
        return f'{i:08d}'                 # 8-digit decimal ids: hex-parsable, highly structured
    if kind == 'hexcounter':
        return '%08x' % i                  # zero-padded hex counter (e.g. hex-encoded IPv4 range)
    if kind == 'long':
        return 'https://example.org/landing?utm=' + 'x' * 260 + f'&id={i}'
    if kind == 'hex8':
        # 8 hex digits as produced by the pipeline's 32-bit value hash; multiplication by an odd constant
        # is a bijection on 32-bit integers, so the values are distinct by construction
        return format((i * 2654435761 + 0x9E3779B9) % 2 ** 32, '08x')
    raise KeyError(kind)


class _LenRaised(Exception):
    pass


def _len(sketch):
    """len() of a sketch; an exception here is the sketch's fault (e.g. a negative estimate), not the harness'."""
    try:
        return len(sketch)
    except (ValueError, OverflowError, TypeError) as e:
        raise _LenRaised(f'{type(e).__name__}: {e}')


def _hll_history(a):
    try:
        return _hll_history_inner(a)
    except _LenRaised as e:
        return {'problems': [{'kind': 'len-raised', 'error': str(e)}], 'distinct': 0, 'probes': 0, 'crossed': False, 'dup_after_switch': 0}


def _hll_history_inner(a):
    clock = FakeClock()
    alloc.install(a.get('poison'))
    sk = HyperLogLogWCache(0.02)
    decoy = HyperLogLogWCache(0.02) if a.get('decoy') else None
    decoy_n = 0
    scaled = a.get('scaled_p')
    notes = {}
    if scaled:
        if not all(hasattr(sk, x) for x in ('p', 'm', 'warmup_size', 'width')):
            return {'problems': [], 'skipped': 'scaled mode unavailable (knob attributes missing)'}
        for s_ in (sk, decoy):
            if s_ is not None:
                s_.p = scaled
                s_.m = 1 << scaled
                s_.warmup_size = s_.m // 2
                s_.width = 64 - scaled
    exact_limit = (1 << (scaled - 1)) if scaled else 2 ** 18
    approx_limit = None if scaled else 2 ** 21
    kind = a.get('kind', 'hex')
    rng = random.Random(a.get('seed', 0))
    distinct = 0          # values 0..distinct-1 have been added
    seen_extra = 0
    problems = []
    probes = 0
    crossed = False
    dup_after_switch = 0

    def check(where):
        nonlocal probes
        probes += 1
        L = _len(sk)
        if distinct <= exact_limit:
            if L != distinct:
                problems.append({'where': where, 'kind': 'not-exact', 'distinct': distinct, 'len': L})
        elif approx_limit and distinct <= approx_limit:
            if abs(L - distinct) > 0.02 * distinct:
                problems.append({'where': where, 'kind': 'outside-2-percent', 'distinct': distinct, 'len': L})
        return L

    for step, op in enumerate(a['ops']):
        k = op[0]
        if decoy is not None:
            # the second sketch gets its own stream; in scaled mode it crosses its switch as well
            burst = 3 if not scaled else rng.choice([3, exact_limit // 2 + 1])
            before_main = _len(sk)
            for _ in range(burst):
                decoy.add(f'decoy-{decoy_n}')
                decoy_n += 1
            decoy.add('decoy-0')
            if _len(sk) != before_main:
                problems.append({'where': f'step {step}', 'kind': 'second-sketch-disturbed', 'detail': 'adding to another sketch changed this one',
                                 'before': before_main, 'after': _len(sk)})
                break
            if decoy_n <= exact_limit and _len(decoy) != decoy_n:
                problems.append({'where': f'step {step}', 'kind': 'second-sketch-disturbed', 'distinct': decoy_n, 'len': _len(decoy)})
                break
        if k == 'add_new':
            n = op[1]
            idx = list(range(distinct, distinct + n))
            order = op[2] if len(op) > 2 else 'asc'
            if order == 'desc':
                idx.reverse()
            elif order == 'shuffle':
                rng.shuffle(idx)
            for i in idx:
                sk.add(hll_value(kind, i))
            distinct += n
            if distinct > exact_limit:
                crossed = True
        elif k == 're_add':
            n, where = op[1], op[2]
            if distinct == 0:
                continue
            before = _len(sk)
            for _ in range(n):
                if where == 'old':
                    i = rng.randrange(0, min(distinct, 1000))
                elif where == 'recent':
                    i = rng.randrange(max(0, distinct - 1000), distinct)
                elif where == 'boundary':
                    lo = max(0, min(distinct, exact_limit) - 5)
                    i = rng.randrange(lo, max(lo + 1, min(distinct, exact_limit + 5)))
                else:
                    i = rng.randrange(0, distinct)
                sk.add(hll_value(kind, i))
            after = _len(sk)
            if crossed or distinct >= exact_limit:
                dup_after_switch += n
            if after != before:
                problems.append({'where': f'step {step} re_add {where}', 'kind': 'duplicate-changed-size', 'distinct': distinct, 'before': before, 'after': after})
        elif k == 'probe':
            check(f'step {step}')
        elif k == 'tick':
            clock.advance(op[1])
        if problems:
            break
    if not problems:
        check('end')
    return {'problems': problems[:3], 'distinct': distinct, 'probes': probes, 'crossed': crossed, 'dup_after_switch': dup_after_switch,
            'final_len': _len(sk)}


@register('hist.hll')
def job_hll(job):
    out = []
    for h in job['args']['histories']:
        out.append(proc.run_in_fork(_hll_history, (h,), timeout=float(h.get('timeout', 120))))
    return {'histories': out}


# ------------------------------------------------------------------------------------- C15 frequency sketches
def _cms_history(a):
    clock = FakeClock()
    alloc.install(a.get('poison'))
    np.random.seed(a['np_seed'])
    sk = CountMinSketch(a['depth'], a['width'])
    decoy = CountMinSketch(a['depth'], a['width']) if a.get('decoy') else None
    true = {}
    total = 0
    problems = []
    collisions = 0
    unseen = [10 ** 12 + 7, -5, 'never-seen', '']

    def key(x):
        return (type(x).__name__, x)

    def check(step):
        nonlocal collisions
        items = list(true.items())
        if len(items) > 60:
            items = items[:30] + items[-30:]
        for (tn, x), t in items:
            q = int(sk.query(x))
            if q < t:
                problems.append({'step': step, 'kind': 'under-estimate', 'item': x, 'true': t, 'query': q})
                return
            if q > total:
                problems.append({'step': step, 'kind': 'above-total', 'item': x, 'query': q, 'total': total})
                return
            if q > t:
                collisions += 1
        for x in unseen:
            if key(x) in true:
                continue
            q = int(sk.query(x))
            if q < 0 or q > total:
                problems.append({'step': step, 'kind': 'unseen-out-of-range', 'item': x, 'query': q, 'total': total})
                return
        rows = sk.get_matrix().sum(axis=1).tolist()
        if any(int(r) != total for r in rows):
            problems.append({'step': step, 'kind': 'row-sum', 'rows': [int(r) for r in rows], 'total': total})

    for step, op in enumerate(a['ops']):
        if a.get('ticks'):
            clock.advance(a['ticks'][step % len(a['ticks'])])
        if decoy is not None:
            decoy.add(f'decoy-{step % 7}', 3)
        if op[0] == 'add':
            _, x, w = op
            if w == 1 and step % 2 == 0:
                sk.add(x)
            else:
                sk.add(x, w)
            true[key(x)] = true.get(key(x), 0) + w
            total += w
        elif op[0] == 'batch_add':
            _, xs, w = op
            sk.batch_add(xs, w)
            for x in xs:
                true[key(x)] = true.get(key(x), 0) + w
                total += w
        check(step)
        if problems:
            break
    return {'problems': problems[:3], 'collisions_seen': collisions, 'total': total, 'distinct': len(true)}


def _counter_history(a):
    if a.get('multi'):
        return _multi_counter_history(a)
    bound = a['bound']
    c = PrimitiveConstrainedCounter(bound)
    true = {}
    seen_order = []
    problems = []
    reached = False
    for step, x in enumerate(a['items']):
        c.add(x)
        if x not in true:
            seen_order.append(x)
        true[x] = true.get(x, 0) + 1
        dc = c.default_counter
        if len(dc) > bound:
            problems.append({'step': step, 'kind': 'tracks-more-than-bound', 'tracked': len(dc), 'bound': bound})
        for k, v in dc.items():
            if v > true.get(k, 0):
                problems.append({'step': step, 'kind': 'over-count', 'item': k, 'count': v, 'true': true.get(k, 0)})
                break
        if len(true) < bound:
            if dict(dc) != true:
                problems.append({'step': step, 'kind': 'not-exact-below-bound', 'distinct_seen': len(true), 'bound': bound,
                                 'diff': sorted(set(dc.items()) ^ set(true.items()), key=repr)[:4]})
        else:
            reached = True
        if problems:
            break
    return {'problems': problems[:3], 'reached_bound': reached, 'distinct': len(true)}


def _multi_counter_history(a):
    """Several bounded counters alive in the same process (what the pipeline does: one per column), fed
    interleaved; each one is checked against its own exact model after every step."""
    bounds = a['bounds']
    cs = [PrimitiveConstrainedCounter(b) if b is not None else PrimitiveConstrainedCounter() for b in bounds]
    trues = [dict() for _ in bounds]
    problems = []
    reached = False
    for step, (ci, x) in enumerate(a['items']):
        cs[ci].add(x)
        trues[ci][x] = trues[ci].get(x, 0) + 1
        for k, (c, true, bound) in enumerate(zip(cs, trues, bounds)):
            bound = bound if bound is not None else 30000
            dc = c.default_counter
            if len(dc) > bound:
                problems.append({'step': step, 'kind': 'tracks-more-than-bound', 'counter': k, 'tracked': len(dc), 'bound': bound})
            for key, v in dc.items():
                if v > true.get(key, 0):
                    problems.append({'step': step, 'kind': 'over-count', 'counter': k, 'item': key, 'count': v, 'true': true.get(key, 0)})
                    break
            if len(true) < bound:
                if dict(dc) != true:
                    problems.append({'step': step, 'kind': 'not-exact-below-bound', 'counter': k, 'distinct_seen': len(true), 'bound': bound,
                                     'diff': sorted(set(dc.items()) ^ set(true.items()), key=repr)[:4]})
            else:
                reached = True
            if problems:
                break
        if problems:
            break
    return {'problems': problems[:3], 'reached_bound': reached, 'distinct': max(len(t) for t in trues), 'counters': len(bounds)}


@register('hist.cms')
def job_cms(job):
    out = []
    for h in job['args']['histories']:
        fn = _counter_history if h.get('counter') else _cms_history
        out.append(proc.run_in_fork(fn, (h,), timeout=40))
    return {'histories': out}
