"""Reference batch semantics of the streaming loop (C08).

Ground truth = list of data lines after the header, each {'ok': bool, 'cells': [...]} (cells only
for well-formed lines).  Consumed rows: well-formed lines whose 1-based position (counting every
data line) is a multiple of `subsampling`, in file order, cut into consecutive batches of
`minibatch_size`; a final partial batch is used only if it has more than 1024 rows; lines whose
field count differs from the header are skipped and counted (only those at selected positions
are ever parsed, hence counted)."""
from __future__ import annotations


def batches(lines, subsampling, minibatch_size, tail_threshold=1024):
    out, cur, skipped = [], [], 0
    for pos, ln in enumerate(lines, start=1):
        if pos % subsampling != 0:
            continue
        if ln['ok']:
            cur.append(ln['cells'])
        else:
            skipped += 1
        if len(cur) >= minibatch_size:
            out.append(cur)
            cur = []
    tail_used = False
    if len(cur) > tail_threshold:
        out.append(cur)
        tail_used = True
    return {'batches': out, 'skipped': skipped, 'tail_rows': len(cur), 'tail_used': tail_used}
