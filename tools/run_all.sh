#!/bin/bash
# run every registered check once (default: quick) and summarise; extra args are passed to ./check
cd "$(dirname "$0")/.."
TIER=${TIER:-quick}
rc=0
for P in C04 C05 C06 C07 C08 C09 C13 C14 C15; do
  out=$(./check $P --tier $TIER "$@" 2>&1); code=$?
  echo "$out" | grep -E "^(VIOLATION|KNOWN-FINDING|HARNESS-ERROR|$P tier)" | cut -c1-300
  echo "   -> $P exit=$code"
  [ $code -ne 0 ] && rc=1
done
exit $rc
