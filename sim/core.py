"""Simulator core: seeded decision source, virtual clock / event heap, trace digest.

One integer decides everything: every choice made while a simulated process runs is drawn
through `Decisions.draw(label, n)`.  In "seed" mode the value comes from a PRNG derived from
(run_seed, label); in "replay" mode it comes from the per-label list stored in a replay file
(0 when the list is exhausted, i.e. the simplest choice).  Every draw is recorded, so a run can
always be turned into an explicit replay.  Logging never draws and never reads a real clock.
"""
from __future__ import annotations

import hashlib
import heapq
import json
import random


class SimStuck(Exception):
    """The simulated process exceeded its step caps (harness outcome, never exit 0)."""


class SimCrash(BaseException):
    """Injected process death.  BaseException so that `except Exception` in the code under
    test cannot swallow it (a SIGKILL cannot be caught either)."""


class Decisions:
    def __init__(self, seed=None, replay=None):
        self.seed = seed
        self.replay = None if replay is None else {k: list(v) for k, v in replay.items()}
        self._rngs = {}
        self._pos = {}
        self.recorded = {}

    def _rng(self, label):
        r = self._rngs.get(label)
        if r is None:
            r = self._rngs[label] = random.Random(f'{self.seed}/{label}')
        return r

    def draw(self, label, n):
        """Integer in [0, n)."""
        if n <= 1:
            v = 0
        elif self.replay is not None:
            lst = self.replay.get(label, ())
            p = self._pos.get(label, 0)
            self._pos[label] = p + 1
            v = lst[p] % n if p < len(lst) else 0
        else:
            v = self._rng(label).randrange(n)
        self.recorded.setdefault(label, []).append(v)
        return v

    def chance(self, label, num, den):
        return self.draw(label, den) < num

    def export(self):
        return {k: list(v) for k, v in self.recorded.items()}


class Trace:
    """Append-only event log with a running digest.  Events are JSON-serialisable tuples."""

    def __init__(self, keep=4000):
        self._h = hashlib.blake2b(digest_size=16)
        self.n = 0
        self.keep = keep
        self.events = []

    def log(self, *event):
        self.n += 1
        b = json.dumps(event, sort_keys=True, default=repr).encode()
        self._h.update(b)
        self._h.update(b'\n')
        if len(self.events) < self.keep:
            self.events.append(event)

    def digest(self):
        return self._h.hexdigest()


class Sim:
    """Virtual time + event heap + decisions + trace for one simulated process."""

    MAX_EVENTS = 10 ** 6
    MAX_SLEEPS = 10 ** 5

    def __init__(self, decisions: Decisions, trace: Trace | None = None):
        self.d = decisions
        self.trace = trace or Trace()
        self.now = 0.0
        self._seq = 0
        self._heap = []
        self.events_run = 0
        self.sleeps = 0
        self.stats = {}
        self.crash_at = None      # (site, k): raise SimCrash at the k-th yield point of that kind
        self.yield_counts = {}
        self.crash_action = None
        self.crashed_at = None

    # ---- statistics -------------------------------------------------------------------
    def count(self, key, n=1):
        self.stats[key] = self.stats.get(key, 0) + n

    # ---- event queue ------------------------------------------------------------------
    def after(self, delay, fn, *args):
        self._seq += 1
        heapq.heappush(self._heap, (self.now + delay, self._seq, fn, args))

    def advance(self, duration):
        """time.sleep(duration) of the simulated process: run every event due in the window."""
        self.sleeps += 1
        if self.sleeps > self.MAX_SLEEPS:
            raise SimStuck('sleep cap')
        end = self.now + duration
        while self._heap and self._heap[0][0] <= end:
            t, _, fn, args = heapq.heappop(self._heap)
            self.now = max(self.now, t)
            self.events_run += 1
            if self.events_run > self.MAX_EVENTS:
                raise SimStuck('event cap')
            fn(*args)
        self.now = end

    def run_until_idle(self):
        while self._heap:
            t, _, fn, args = heapq.heappop(self._heap)
            self.now = max(self.now, t)
            self.events_run += 1
            if self.events_run > self.MAX_EVENTS:
                raise SimStuck('event cap')
            fn(*args)

    def pending(self):
        return len(self._heap)

    # ---- yield points (crash injection) -----------------------------------------------
    def yield_point(self, site, detail=None):
        """Called by the seams at every observable step.  Counted per `site`, per `site:detail`
        and globally ('*').  When the crash plan names this point the process dies here: through
        `crash_action` (a function that does not return: report + os._exit, i.e. a kill without
        unwinding) or, without one, by raising SimCrash."""
        keys = [site, '*'] if detail is None else [site, f'{site}:{detail}', '*']
        hit = None
        for key in keys:
            k = self.yield_counts.get(key, 0) + 1
            self.yield_counts[key] = k
            if self.crash_at is not None and self.crash_at[0] == key and self.crash_at[1] == k:
                hit = (key, k)
        if hit is not None:
            self.trace.log('crash', hit[0], hit[1])
            self.count('crash@' + site)
            self.crash_at = None
            self.crashed_at = {'site': hit[0], 'k': hit[1], 'detail': detail, 'now': self.now}
            if self.crash_action is not None:
                self.crash_action()
            raise SimCrash(f'{hit[0]}#{hit[1]}')
