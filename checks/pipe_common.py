"""Common machinery of the `pipe` checks (C05-C09, C13): spec generation, result classification,
structural shrinking, replay."""
from __future__ import annotations

import copy
import json
import os
import random
import re

from checks import common
from sim import workload as wlmod
from sim.alloc.alloc import palette

HEURISTICS_ALL = ['MI-numba-randomized', 'MI-numba-3mr', 'max-value-coverage', 'MI', 'AMI', 'correlation-Pearson', 'Constant']
POOL_SIZES = [1, 2, 3, 4, 8, 16]
SERVICE_MODES = ['instant', 'ms', 'seconds', 'mixed', 'stall-one', 'reverse']


def documented_heuristics():
    """Heuristic names used by the project's own docs / examples / scripts / benchmarks / selftest (scanned at
    check time), minus surrogate-* (excluded by the property)."""
    import glob
    import os
    rp = common.repo_path()
    names = set()
    pats = ['README.md', 'docs/*.md', 'docs/**/*.html', 'examples/*', 'scripts/*', 'benchmarks/*', 'outrank/__main__.py', 'outrank/task_selftest.py', 'outrank/core_utils.py']
    for pat in pats:
        for p in glob.glob(os.path.join(rp, pat), recursive=True):
            if not os.path.isfile(p) or p.endswith('.png'):
                continue
            try:
                text = open(p, encoding='utf-8', errors='replace').read()
            except OSError:
                continue
            for m in re.finditer(r'--heuristic[= ]+["\']?([A-Za-z0-9_\-]+)', text):
                names.add(m.group(1))
            for m in re.finditer(r"conduct_self_test\('([A-Za-z0-9_\-]+)'", text):
                names.add(m.group(1))
            for m in re.finditer(r"heuristic\s+([A-Za-z0-9_\-]+)\s", text):
                if m.group(1) in HEURISTICS_ALL:
                    names.add(m.group(1))
    return sorted(n for n in names if not n.lower().startswith('surrogate') and n in HEURISTICS_ALL)


# ------------------------------------------------------------------------------------ generation
def gen_lines_for(rng, target_consumed, subsampling, ncols=None, malformed=0.0, opts=None):
    """Workload whose number of consumed well-formed rows is exactly target_consumed."""
    for attempt in range(12):
        if attempt >= 8:
            malformed = 0.0          # the malformed-line lottery kept eating the selected positions: fall back to a clean file
        n = int(subsampling * (target_consumed + 2) / max(0.2, 1 - malformed) * (1.0 + 0.5 * attempt)) + subsampling + 3 + attempt * 10
        wl = wlmod.gen_workload(rng, n, ncols=ncols, malformed=malformed, opts=opts)
        c = 0
        cut = None
        for pos, ln in enumerate(wl['lines'], start=1):
            if pos % subsampling == 0 and ln['ok']:
                c += 1
                if c == target_consumed:
                    cut = pos
                    break
        if target_consumed == 0:
            cut = rng.randrange(0, subsampling) if subsampling > 1 else 0
            # no well-formed line at a selected position
            wl['lines'] = [ln for ln in wl['lines'][:cut]]
            return wl
        if cut is not None:
            extra = rng.randrange(0, subsampling)      # trailing lines that are never selected
            tail = wl['lines'][cut:cut + extra]
            wl['lines'] = wl['lines'][:cut] + tail
            return wl
    raise RuntimeError('could not build workload')


REFJSON_HEURISTICS = ('MI-numba-randomized', 'MI-numba-3mr', 'Constant')


def gen_geometry(rng, profile):
    """(minibatch_size, subsampling, target consumed rows)"""
    s = rng.choice(profile.get('subsampling', [1, 1, 2, 3, 4]))
    if rng.random() < profile.get('tail_prob', 0.0):
        m = rng.randrange(1030, 1300)
        k = rng.choice([0, 1])
        left = rng.choice([1023, 1024, 1025, 1026, rng.randrange(0, m)])
        left = min(left, m - 1)
        return m, s, k * m + left
    m = rng.choice(profile.get('minibatch', [2, 3, 5, 8, 13, 20, 50]))
    k = rng.choice(profile.get('batches', [1, 1, 2, 2, 3, 5]))
    delta = rng.choice(profile.get('delta', [0, 0, 1, -1, rng.randrange(0, m)]))
    return m, s, max(0, k * m + delta)


def gen_spec(rng, profile):
    m, s, target = gen_geometry(rng, profile)
    ncols = rng.choice(profile.get('ncols', [2, 3, 3, 4, 5, 6]))
    big = target > 600
    if big:
        ncols = min(ncols, 4)
    if target > 20000:
        ncols = min(ncols, 3)
    colopts = profile.get('colopts')
    if target > 20000:
        # the estimators are O(#distinct values x rows): very large batches only with low-cardinality columns
        colopts = {'kind': ['lowcard', 'balanced-binary', 'noisy-label', 'sparse', 'constant', 'numeric']}
    wl = gen_lines_for(rng, target, s, ncols=ncols, malformed=rng.choice(profile.get('malformed', [0.0])), opts=colopts)
    heuristic = rng.choice(profile.get('heuristics', ['MI-numba-randomized']))
    if big and heuristic in ('MI', 'AMI'):
        heuristic = 'MI-numba-randomized'
    if target > 20000:
        heuristic = rng.choice(['max-value-coverage', 'MI-numba-randomized', 'MI-numba-3mr'])
    cli = {
        'heuristic': heuristic, 'minibatch_size': m, 'subsampling': s,
        'num_threads': rng.choice(profile.get('pool_sizes', POOL_SIZES)),
        'target_ranking_only': rng.choice(profile.get('target_only', ['True', 'True', 'False'])),
        'include_cardinality_in_feature_names': rng.choice(profile.get('card_names', ['True', 'False'])),
        'label_column': wl['label'],
    }
    if rng.random() < 0.03:
        # the CLI takes these flags as free strings; other spellings than 'True'/'False' are legal input
        cli['target_ranking_only'] = rng.choice([cli['target_ranking_only'].lower(), cli['target_ranking_only'].upper()])
    if profile.get('cap'):
        cap = profile['cap'](rng, ncols)
        if cap is not None:
            cli['combination_number_upper_bound'] = cap
    if profile.get('task'):
        cli['task'] = rng.choice(profile['task'])
    for k, f in (profile.get('cli_extra') or {}).items():
        v = f(rng, wl)
        if v is not None:
            cli[k] = v
    spec = {
        'workload': wl, 'cli': cli, 'seed': rng.randrange(2 ** 40),
        'service_mode': rng.choice(profile.get('service_modes', SERVICE_MODES + [None])),
        'oracles': list(profile['oracles']),
        'fs': {'write_through': rng.random() < 0.6, 'short_reads': rng.random() < profile.get('short_reads', 0.0)},
    }
    if profile.get('ref_json') and heuristic in REFJSON_HEURISTICS and len(wl['header']) >= 3 and rng.random() < profile['ref_json']:
        # a hand-made reference model: single features, combined features ('a,b', any order, any arity) and fields
        nonlabel = [h for h in wl['header'] if h != wl['label']]
        feats = [h for h in nonlabel if rng.random() < 0.5]
        for _ in range(rng.choice([0, 1, 1, 2, 3])):
            k = min(len(nonlabel), rng.choice([2, 2, 2, 3]))
            feats.append(','.join(rng.sample(nonlabel, k)))
        rng.shuffle(feats)
        spec['ref_json'] = {'desc': {'features': feats, 'fields': [h for h in nonlabel if rng.random() < 0.5]}}
    if rng.random() < profile.get('more_runs', 0.0) and len(wl['header']) >= 2:
        # a long-lived interpreter runs a second task on the same data: another label column, maybe another heuristic / batch size
        other_cols = [h for h in wl['header'] if h != wl['label']]
        c2 = {'label_column': rng.choice(other_cols + [wl['label']])}
        if rng.random() < 0.4:
            c2['heuristic'] = rng.choice(profile.get('heuristics', ['MI-numba-randomized']))
        if rng.random() < 0.3:
            c2['minibatch_size'] = max(2, m // 2)
        if rng.random() < 0.3:
            c2['target_ranking_only'] = rng.choice(['True', 'False'])
        if spec.get('ref_json') and c2.get('heuristic') not in REFJSON_HEURISTICS:
            c2.pop('heuristic', None)       # the reference-model knob stays with the heuristics that accept its input shape
        spec['more_runs'] = [{'cli': c2}]
    if profile.get('post'):
        profile['post'](rng, spec)
    if rng.random() < profile.get('poison', 0.3):
        pal = palette(max(1, target))
        if rng.random() < 0.5:
            w = rng.choice(pal)
            spec['poison'] = {'mode': 0, 'word': w[1], 'name': w[0]}
        else:
            spec['poison'] = {'mode': 1, 'seed': rng.randrange(1, 2 ** 63), 'name': 'stream'}
    return spec


def job_of(spec, timeout=55):
    timeout = spec.get('timeout_s', timeout)
    return {'fn': 'pipe.run', 'timeout': timeout + 10, 'args': dict(spec, phase_timeout=timeout), 'hashseed': spec.get('hashseed')}


# ------------------------------------------------------------------------------------ classification
class Harness(Exception):
    pass


def phase_values(result):
    if result['status'] != 'returned':
        raise Harness(f"machine process did not return: {result.get('status')} {str(result.get('trace', ''))[-600:]}")
    return result['value']['phases']


def exception_key(trace):
    lines = [l for l in trace.strip().splitlines() if l.strip()]
    last = lines[-1] if lines else ''
    where = ''
    for l in reversed(lines):
        m = re.search(r'File "([^"]+outrank/[^"]+)", line \d+, in (\w+)', l)
        if m:
            where = m.group(2)
            break
    return f'{where}: {last}'[:200]


def classify_phase(prop, spec, ph, crashed_expected=False):
    """-> (violations [(cls, key, detail)], other_observations {prop: n}, harness_problem or None)"""
    pr = ph['proc']
    cli = spec['cli']
    vio, other = [], {}
    if pr['status'] == 'died':
        return [('process-died', f"signal {pr['signal']}", {'signal': pr['signal']})], other, None
    if pr['status'] == 'timeout':
        return [], other, 'simulated process exceeded its wall limit'
    if pr['status'] != 'returned':
        return [], other, f"simulated process: {pr['status']} {str(pr.get('trace', ''))[-800:]}"
    v = pr['value']
    st = v['status']
    task = cli.get('task', 'ranking')
    if st == 'stuck':
        return [], other, f"simulator stuck: {v.get('error')}"
    def exception_verdict(vv, task_, heuristic_, where=''):
        tr = vv.get('trace', '')
        benign = (heuristic_ == 'Constant' or task_ != 'ranking') and 'FileNotFoundError' in tr and "ranking_checkpoint_tmp.tsv" in tr and 'os.remove' in tr
        frames = [l for l in tr.split('Traceback')[-1].splitlines() if l.strip().startswith('File "')]
        # an exception whose innermost frame is monitor / oracle code is a harness defect; the seams (sim/fs.py, sim/pool.py)
        # pass real errors of the wrapped calls through, those belong to the code under test
        harness = bool(frames) and any(x in frames[-1] for x in (os.sep + os.path.join('sim', 'engines') + os.sep, os.sep + os.path.join('sim', 'refmodel') + os.sep))
        if harness:
            return 'harness', 'exception inside the harness: ' + tr[-800:]
        # C05/C06/C07 speak about what every mini-batch emits: an exception raised after the streaming phase
        # (3MR post-processing, summaries) is outside their statements and only counted
        downstream = (prop in ('C05', 'C06', 'C07') and vv.get('stream_returned')) or \
            (prop == 'C13' and task_ == 'identify_rare_values' and vv.get('rare_report_ok'))   # report complete and exact; the later sparsity summary is outside the statement
        if downstream:
            other['downstream-exception:' + exception_key(tr)[:80]] = 1
        elif not benign:
            vio.append(('task-exception', exception_key(tr), {'trace': tr[-1200:], 'task_number_in_process': where or 1}))
        return None, None

    if st == 'exception':
        k, msg = exception_verdict(v, task, cli.get('heuristic'))
        if k == 'harness':
            return [], other, msg
    for li, lv in enumerate(v.get('later_runs') or [], start=2):
        c2 = dict(cli)
        c2.update(lv.get('cli') or {})
        if lv.get('status') == 'stuck':
            return [], other, f"simulator stuck in task {li}: {lv.get('error')}"
        if 'final_check_error' in lv:
            return [], other, 'final checks failed: ' + lv['final_check_error']
        if lv.get('status') == 'exception':
            k, msg = exception_verdict(lv, c2.get('task', 'ranking'), c2.get('heuristic'), where=li)
            if k == 'harness':
                return [], other, msg
        if lv.get('status') == 'exit' and c2.get('task', 'ranking') == 'ranking' and lv.get('expected_batches', 0) > 0:
            vio.append(('unexpected-exit', 'exit', {'task_number_in_process': li, 'expected_batches': lv.get('expected_batches')}))
        for x in lv.get('violations', []):
            if x['property'] == prop:
                vio.append((x['class'], x['class'], x['detail']))
            else:
                other[x['property']] = other.get(x['property'], 0) + 1
    if st == 'exit' and task == 'ranking' and v.get('expected_batches', 0) > 0:
        vio.append(('unexpected-exit', 'exit', {'exit_code': v.get('exit_code'), 'expected_batches': v.get('expected_batches')}))
    if st == 'crashed-unwound':
        return [], other, 'crash unwound instead of killing'
    if 'final_check_error' in v:
        return [], other, 'final checks failed: ' + v['final_check_error']
    for x in v.get('violations', []):
        if x['property'] == prop:
            vio.append((x['class'], x['class'], x['detail']))
        else:
            other[x['property']] = other.get(x['property'], 0) + 1
    for x in ph.get('crash_verdict') or []:
        if x['property'] == prop:
            vio.append((x['class'], x['class'], x['detail']))
        elif x['property'] is not None:
            other[x['property']] = other.get(x['property'], 0) + 1
    return vio, other, None


# ------------------------------------------------------------------------------------ shrinking
def shrink_candidates(spec, rng=None):
    """Structurally simpler variants of a pipe spec (one change each)."""
    out = []
    wl = spec['workload']
    lines = wl['lines']
    n = len(lines)

    def with_wl(**kw):
        s = copy.deepcopy(spec)
        s['workload'].update(kw)
        return s

    def with_cli(**kw):
        s = copy.deepcopy(spec)
        s['cli'].update(kw)
        return s
    # fewer lines
    if n > 1:
        for parts in (2, 4, 8, 16):
            size = max(1, n // parts)
            for st in range(0, n, size):
                keep = lines[:st] + lines[st + size:]
                if keep:
                    out.append(with_wl(lines=keep))
        if n <= 16:
            for i in range(n):
                out.append(with_wl(lines=lines[:i] + lines[i + 1:]))
    # fewer columns
    hdr = wl['header']
    if len(hdr) > 1:
        referenced = ' '.join(str(v) for v in spec['cli'].values() if isinstance(v, str))
        for j, name in enumerate(hdr):
            if name == wl['label'] or name in referenced:
                continue
            nl = []
            for ln in lines:
                if ln['ok']:
                    nl.append({'ok': True, 'cells': ln['cells'][:j] + ln['cells'][j + 1:]})
                else:
                    # a line that is malformed for n columns may be well-formed for n-1: keep the ground truth honest
                    import csv as _csv
                    fields = list(_csv.reader([ln['raw']])).pop() if ln['raw'] != '' else []
                    if len(fields) != len(hdr) - 1:
                        nl.append(ln)
            s = with_wl(header=hdr[:j] + hdr[j + 1:], lines=nl)
            if 'kinds' in s['workload']:
                s['workload']['kinds'] = wl['kinds'][:j] + wl['kinds'][j + 1:]
            out.append(s)
    # drop malformed lines
    if any(not ln['ok'] for ln in lines):
        out.append(with_wl(lines=[ln for ln in lines if ln['ok']]))
    # simpler cells: map each column's values to short tokens
    def simp(lines):
        maps = {}
        nl = []
        for ln in lines:
            if not ln['ok']:
                nl.append(ln)
                continue
            cells = []
            for j, c in enumerate(ln['cells']):
                mp = maps.setdefault(j, {})
                if c not in mp:
                    mp[c] = c if c in ('', '{}') else chr(ord('a') + len(mp) % 26) + (str(len(mp) // 26) if len(mp) >= 26 else '')
                cells.append(mp[c])
            nl.append({'ok': True, 'cells': cells})
        return nl
    s = with_wl(lines=simp(lines), eol='\n', final_newline=True)
    if s['workload'] != wl:
        out.append(s)
    # simpler configuration
    cli = spec['cli']
    if cli.get('num_threads', 1) != 1:
        out.append(with_cli(num_threads=1))
    if cli.get('subsampling', 1) != 1:
        out.append(with_cli(subsampling=1))
    if cli.get('include_cardinality_in_feature_names') == 'True':
        out.append(with_cli(include_cardinality_in_feature_names='False'))
    if cli.get('target_ranking_only') == 'False':
        out.append(with_cli(target_ranking_only='True'))
    m = cli.get('minibatch_size', 1)
    floor = 2       # a correlation on a single row is undefined (scipy refuses it): one-row batches are not generated
    for m2 in {max(floor, m // 2), max(floor, m - 1)}:
        if m2 != m:
            out.append(with_cli(minibatch_size=m2))
    if spec.get('service_mode') != 'instant':
        s = copy.deepcopy(spec)
        s['service_mode'] = 'instant'
        out.append(s)
    if spec.get('poison'):
        s = copy.deepcopy(spec)
        s.pop('poison')
        out.append(s)
    if spec.get('more_runs'):
        s = copy.deepcopy(spec)
        s.pop('more_runs')
        out.append(s)
    if spec.get('fs', {}).get('short_reads'):
        s = copy.deepcopy(spec)
        s['fs']['short_reads'] = False
        out.append(s)
    return out


def spec_size(spec):
    wl = spec['workload']
    cli = spec['cli']
    return (len(wl['lines']), len(wl['header']), cli.get('minibatch_size', 1), cli.get('subsampling', 1), cli.get('num_threads', 1),
            0 if spec.get('service_mode') == 'instant' else 1, len(json.dumps(spec, default=repr)))


def shrink(pool, spec, fails_many, rounds=30, max_cands=160, wall=45.0):
    """fails_many(list of specs) -> list of bool (same violation class reproduced)."""
    import time
    cur = spec
    t0 = time.time()
    for _ in range(rounds):
        if time.time() - t0 > wall:
            break
        cands = shrink_candidates(cur)[:max_cands]
        if not cands:
            break
        res = fails_many(cands)
        better = [c for c, f in zip(cands, res) if f]
        if not better:
            break
        better.sort(key=spec_size)
        if spec_size(better[0]) >= spec_size(cur):
            break
        cur = better[0]
    return cur


def spec_summary(spec):
    wl = spec['workload']
    return {'rows': len(wl['lines']), 'columns': wl['header'], 'label': wl['label'], 'cli': spec['cli'], 'service_mode': spec.get('service_mode'),
            'poison': (spec.get('poison') or {}).get('name'), 'fs': spec.get('fs'), 'first_lines': wl['lines'][:3], 'phases': spec.get('phases'),
            'further_tasks_in_same_process': [m.get('cli') for m in spec.get('more_runs') or []], 'reference_model_JSON': spec.get('ref_json')}


# ------------------------------------------------------------------------------------ generic runner
CRASH_SITES = ['sleep', 'chunk', 'readline', 'amap', 'batch-entry', 'batch-return', 'stream-end', 'remove',
               'open-w:ranking_checkpoint_tmp.tsv', 'opened-w:ranking_checkpoint_tmp.tsv', 'write:ranking_checkpoint_tmp.tsv',
               'close-w:ranking_checkpoint_tmp.tsv', 'closed-w:ranking_checkpoint_tmp.tsv',
               'open-w:pairwise_ranks.tsv', 'opened-w:pairwise_ranks.tsv', 'write:pairwise_ranks.tsv', 'closed-w:pairwise_ranks.tsv',
               'open-w:memory.tsv', 'closed-w:value_repetitions.json', 'write']


def pick_crash(rng, yield_counts):
    sites = [s for s in CRASH_SITES if yield_counts.get(s, 0) > 0]
    if not sites:
        return None
    # bias towards the checkpoint / batch boundary sites
    weights = [3 if ('checkpoint' in s or s.startswith('batch') or s in ('sleep', 'chunk')) else 1 for s in sites]
    site = rng.choices(sites, weights=weights)[0]
    return [site, rng.randrange(1, yield_counts[site] + 1)]


def record_run(rep, spec, v):
    """Evidence bookkeeping for one completed simulated process."""
    rep.sim_seconds += v.get('sim_now', 0.0)
    rep.add_counts(rep.probes, v.get('probes'))
    st = v.get('stats', {})
    rep.add_counts(rep.fault_counts, {k: n for k, n in st.items() if k.startswith(('crash@', 'stall', 'short_read', 'oversleep', 'clock_jump'))})
    if v.get('reordered_amaps'):
        rep.add_counts(rep.fault_counts, {'reordered_completion': v['reordered_amaps']})
    if spec.get('poison'):
        rep.add_counts(rep.fault_counts, {'poison:' + ('stream' if spec['poison'].get('mode') else 'word'): 1})
    for sig in v.get('interleaving', []):
        rep.interleavings.add(sig)
    if v.get('tail_used'):
        rep.add_counts(rep.probes, {'tail_batch_taken': 1})
    elif v.get('tail_rows', 0) > 0:
        rep.add_counts(rep.probes, {'tail_batch_dropped': 1})
        if v.get('tail_rows') in (1023, 1024):
            rep.add_counts(rep.probes, {'tail_batch_dropped_at_threshold': 1})
    if v.get('skipped'):
        rep.add_counts(rep.probes, {'malformed_rows_skipped': 1})
    if v.get('later_runs'):
        rep.add_counts(rep.fault_counts, {'second_task_in_same_process': len(v['later_runs'])})
        for lv in v['later_runs']:
            rep.add_counts(rep.probes, lv.get('probes'))


def run_check(prop, args, profile, rule, signature, nontrivial, crash_mode=False, engine='pipe', family=None,
              hashseeds_quick=(0, 1, 2, 3), hashseeds_thorough=(0, 1, 2, 3, 4, 5, 6, 7), batch=64, budget_quick=45, budget_thorough=900,
              after_round=None, assumptions=None, extra_evidence=None, rep=None, pool=None, finish=True, budget=None):
    """Generic seeded search loop for the pipe checks.
    signature(spec, value) -> hashable shape signature; nontrivial(spec, value) -> bool."""
    own_rep = rep is None
    if own_rep:
        rep = common.Report(prop, args, engine)
        rep.rule = rule
        rep.assumptions = assumptions or []
        if args.replay:
            return replay(prop, args, rep)
    budget = budget or args.budget or (budget_quick if args.tier == 'quick' else budget_thorough)
    own_pool = pool is None
    if own_pool:
        hs = list(hashseeds_quick if args.tier == 'quick' else hashseeds_thorough)
        pool = common.ZygotePool(hashseeds=hs)
    hs = list(pool.hashseeds)
    rep.hashseeds.update(hs)
    rng = random.Random(f'{prop}/pipe/{args.seed}')
    stop = False
    rounds = 0
    import time as _time
    t_start = _time.time()
    while (rounds == 0 or _time.time() - t_start < budget) and not stop:
        rounds += 1
        specs = [gen_spec(rng, profile) for _ in range(batch)]
        for s in specs:
            s['hashseed'] = rng.choice(hs)
        results = pool.run([job_of(s) for s in specs])
        crash_jobs = []
        for spec, res in zip(specs, results):
            phs = phase_values(res)
            vio, other, harness = classify_phase(prop, spec, phs[0])
            if harness:
                raise common.HarnessError(harness + ' spec=' + json.dumps(spec_summary(spec), default=repr)[:800])
            rep.evaluations += 1
            rep.add_counts(rep.other_obs, other)
            if phs[0]['proc']['status'] == 'returned':
                v = phs[0]['proc']['value']
                record_run(rep, spec, v)
                if nontrivial(spec, v):
                    rep.distinct.add(signature(spec, v))
                rep.sample(dict(spec_summary(spec), outcome={k: v.get(k) for k in ('status', 'batches', 'expected_batches', 'tail_rows', 'tail_used', 'skipped', 'sim_now', 'chunks', 'pool_mode')}))
                if crash_mode and not vio and v.get('batches', 0) >= 1 and rng.random() < 0.7:
                    cp = pick_crash(rng, v.get('yield_counts', {}))
                    if cp:
                        cs = copy.deepcopy(spec)
                        cs['phases'] = [{'crash': cp}, {}]
                        crash_jobs.append((cs, v))
            if vio and not stop:
                stop = handle_violation(pool, rep, prop, spec, vio[0], phase_index=0) and not args.keep_going
        if crash_mode and crash_jobs and not stop:
            cres = pool.run([job_of(cs) for cs, _ in crash_jobs])
            for (cs, census), res in zip(crash_jobs, cres):
                phs = phase_values(res)
                rep.evaluations += 1
                all_vio = []
                for pi, ph in enumerate(phs):
                    vio, other, harness = classify_phase(prop, cs, ph)
                    if harness:
                        raise common.HarnessError(harness + ' spec=' + json.dumps(spec_summary(cs), default=repr)[:800])
                    rep.add_counts(rep.other_obs, other)
                    if ph['proc']['status'] == 'returned':
                        record_run(rep, cs, ph['proc']['value'])
                    for x in ph.get('crash_verdict') or []:
                        if x['property'] is None:
                            rep.add_counts(rep.probes, {x['class']: 1})
                    all_vio += [(pi, x) for x in vio]
                p0 = phs[0]['proc'].get('value', {})
                p1 = phs[1]['proc'].get('value', {})
                if p0.get('status') == 'crashed':
                    rep.add_counts(rep.fault_counts, {'restart_dirty_disk': 1})
                    rep.distinct.add(('crash', cs['phases'][0]['crash'][0], p0.get('batches_done', 0) > 0, p1.get('expected_batches', 0) > 1))
                    # the restarted process must produce what the undisturbed run produced
                    if prop == 'C08' and not all_vio and p1.get('ranks') != census.get('ranks'):
                        all_vio.append((1, ('restart-differs', 'restart-differs', {'crash': cs['phases'][0]['crash'],
                                                                                   'undisturbed_rows': len(census.get('ranks') or []), 'restart_rows': len(p1.get('ranks') or [])})))
                else:
                    rep.add_counts(rep.probes, {'crash_point_not_reached': 1})
                if all_vio and not stop:
                    pi, x = all_vio[0]
                    stop = handle_violation(pool, rep, prop, cs, x, phase_index=pi, census=census) and not args.keep_going
        if after_round and not stop:
            stop = bool(after_round(pool, rep, rng, specs, results)) and not args.keep_going
    rep.extra['rounds'] = rep.extra.get('rounds', 0) + rounds
    rep.extra.setdefault('real_components', [])
    rep.extra.setdefault('stub_components', [])
    rep.extra['real_components'] += ['outrank.__main__.main -> outrank_task_conduct_ranking -> estimate_importances_minibatches -> compute_batch_ranking -> mixed_rank_graph -> heuristics / numba kernels; csv, pandas, gzip, sketches (all from /repo)']
    rep.extra['stub_components'] += ['SimPool for pathos ProcessingPool (sim/pool.py)', 'SimClock for time.sleep/timer', 'SimFS interposer on builtins.open/os.remove (real files on tmpfs)', 'PoisonAllocator (optional, swarm-selected)']
    if extra_evidence:
        rep.extra.update(extra_evidence(rep))
    if not finish:
        return stop
    code = rep.finish()
    if own_pool:
        pool.close()
    return code


def same_failure(prop, spec, res, cls, phase_index=None, census=None, key=None):
    try:
        phs = phase_values(res)
    except Harness:
        return False
    for pi, ph in enumerate(phs):
        vio, _, harness = classify_phase(prop, spec, ph)
        if harness:
            return False
        if any(v[0] == cls and (key is None or cls != 'task-exception' or v[1] == key) for v in vio):
            return True
    if cls == 'restart-differs' and census is not None and len(phs) > 1:
        p0 = phs[0]['proc'].get('value', {})
        p1 = phs[1]['proc'].get('value', {})
        return p0.get('status') == 'crashed' and p1.get('ranks') != census.get('ranks')
    return False


def handle_violation(pool, rep, prop, spec, vio, phase_index=0, census=None):
    cls, key, detail = vio
    small = spec
    if cls != 'restart-differs':
        def fails_many(cands):
            rs = pool.run([job_of(c) for c in cands])
            return [same_failure(prop, c, r, cls, key=key) for c, r in zip(cands, rs)]
        try:
            small = shrink(pool, spec, fails_many)
        except common.HarnessError:
            small = spec
        # final confirmation + fresh detail from the minimised spec
        r = pool.run([job_of(small)])[0]
        if same_failure(prop, small, r, cls, key=key):
            for ph in phase_values(r):
                for v in classify_phase(prop, small, ph)[0]:
                    if v[0] == cls:
                        key, detail = v[1], v[2]
                        break
        else:
            small = spec
        # turn the seed-driven schedule into an explicit decision list (chunk->worker choices, service times,
        # stalls, short-read sizes): the replay file then no longer depends on the PRNG
        try:
            phs = phase_values(r) if same_failure(prop, small, r, cls, key=key) else None
            if phs is not None:
                explicit = copy.deepcopy(small)
                explicit['phases'] = [dict(ph0, replay=ph['proc']['value'].get('decisions', {})) for ph0, ph in zip(small.get('phases') or [{}], phs)
                                      if ph['proc']['status'] == 'returned']
                if len(explicit['phases']) == len(small.get('phases') or [{}]):
                    r2 = pool.run([job_of(explicit)])[0]
                    if same_failure(prop, explicit, r2, cls, key=key):
                        small = explicit
        except (KeyError, Harness):
            pass
    return rep.violation(cls, key, {'observed': detail, 'spec': spec_summary(small)},
                         {'spec': small, 'phase_index': phase_index, 'census_ranks': (census or {}).get('ranks') if cls == 'restart-differs' else None,
                          'seed': rep.args.seed})


def replay(prop, args, rep):
    """Re-execute a replay file in fresh zygotes.  Everything the simulator controls is replayed exactly; a failure
    that additionally depends on something it does not control (CPython object addresses, an entropy-seeded generator
    inside compiled code) may need more than one attempt, so up to 5 are made and the number needed is printed."""
    with open(args.replay) as fh:
        obj = json.load(fh)
    spec = obj['spec']
    hs = spec.get('hashseed') or 0
    ok, attempts = False, 0
    for attempts in range(1, 6):
        pool = common.ZygotePool(hashseeds=[hs], width=2)
        r = pool.run([job_of(spec)])[0]
        if obj['class'] == 'restart-differs':
            # the undisturbed run is re-executed on the tree under test (not taken from the file): the oracle is
            # "killed + restarted == undisturbed" on ONE tree
            plain = copy.deepcopy(spec)
            plain.pop('phases', None)
            rc = pool.run([job_of(plain)])[0]
            pc = phase_values(rc)[0]['proc'].get('value', {})
            phs = phase_values(r)
            p0 = phs[0]['proc'].get('value', {})
            p1 = phs[1]['proc'].get('value', {}) if len(phs) > 1 else {}
            ok = p0.get('status') == 'crashed' and p1.get('ranks') != pc.get('ranks')
        else:
            ok = same_failure(prop, spec, r, obj['class'], key=obj.get('key'))
        pool.close()
        if ok:
            break
    if ok:
        print(f"REPRODUCED class={obj['class']} (attempt {attempts})")
        print(f'VIOLATION property={prop} replay={args.replay}')
        return 1
    print(f"NOT-REPRODUCED expected class={obj['class']} (5 attempts)")
    return 0
