"""Median aggregation of per-batch triplets and parsers for the files the task writes (C08)."""
from __future__ import annotations

import csv
import math
import re
import statistics

_ANNOT = re.compile(r'-\((\d+); (-?\d+)\)$')


def median_by_pair(triplets):
    """triplets: iterable of (A, B, score) -> {(A, B): median}"""
    acc = {}
    for a, b, s in triplets:
        acc.setdefault((a, b), []).append(float(s))
    out = {}
    for k, v in acc.items():
        vv = [x for x in v if not math.isnan(x)]
        out[k] = statistics.median(vv) if vv else float('nan')
    return out


def parse_tsv(text):
    lines = text.split('\n')
    if lines and lines[-1] == '':
        lines.pop()
    rows = list(csv.reader([ln[:-1] if ln.endswith('\r') else ln for ln in lines], delimiter='\t'))
    if not rows:
        return [], []
    return rows[0], rows[1:]


def parse_checkpoint(text):
    """ranking_checkpoint_tmp.tsv: index, FeatureA, FeatureB, Score -> {(A,B): score}"""
    header, rows = parse_tsv(text)
    if header[-3:] != ['FeatureA', 'FeatureB', 'Score']:
        raise ValueError(f'unexpected checkpoint header {header}')
    out = {}
    for r in rows:
        a, b, s = r[-3], r[-2], r[-1]
        if (a, b) in out:
            raise ValueError(f'duplicate pair {(a, b)} in checkpoint')
        out[(a, b)] = float(s) if s != '' else float('nan')
    return out


def parse_ranks(text):
    """pairwise_ranks.tsv -> list of (A, B, score) in file order"""
    header, rows = parse_tsv(text)
    if header != ['FeatureA', 'FeatureB', 'Score']:
        raise ValueError(f'unexpected header {header}')
    return [(r[0], r[1], float(r[2]) if r[2] != '' else float('nan')) for r in rows]


def strip_annotation(name):
    """'feat-(12; 97)' -> ('feat', 12, 97); plain names -> (name, None, None)"""
    m = _ANNOT.search(name)
    if not m:
        return name, None, None
    return name[:m.start()], int(m.group(1)), int(m.group(2))


def same_score(a, b, rel=1e-9):
    if math.isnan(a) and math.isnan(b):
        return True
    return abs(a - b) <= rel * (1 + abs(b))


def ascending(scores):
    """non-decreasing, NaN only at the end"""
    seen_nan = False
    prev = None
    for s in scores:
        if math.isnan(s):
            seen_nan = True
            continue
        if seen_nan:
            return False
        if prev is not None and s < prev:
            return False
        prev = s
    return True
