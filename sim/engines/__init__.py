"""Job functions callable inside a zygote's forked child.  REGISTRY maps job['fn'] -> callable(job)."""
from __future__ import annotations

REGISTRY = {}


def register(name):
    def deco(f):
        REGISTRY[name] = f
        return f
    return deco


from sim.engines import alloc_engine  # noqa: E402,F401
try:
    from sim.engines import pipe_engine  # noqa: E402,F401
except ImportError as _e:  # pragma: no cover - during incremental build only
    if 'pipe_engine' not in str(_e):
        raise
try:
    from sim.engines import hist_engine  # noqa: E402,F401
except ImportError as _e:  # pragma: no cover
    if 'hist_engine' not in str(_e):
        raise
